// bounded Kani harnesses for TimeZone::from_tzif (C18 decode / C19): v1 files with CONCRETE header counts and fully symbolic
// table contents. Injected as a child module of src/local/timezone.rs (private fields and validate are reachable).
use super::TimeZone;

fn v1_file<const N: usize>(ntrans: u8, ntypes: u8) -> [u8; N] {
    let mut b: [u8; N] = kani::any();
    b[0] = b'T'; b[1] = b'Z'; b[2] = b'i'; b[3] = b'f'; b[4] = 0;
    let mut i = 20;
    while i < 44 { b[i] = 0; i += 1; }
    b[35] = ntrans;
    b[39] = ntypes;
    b[43] = 4;
    b
}

/// one transition, one type: 44 + 4 + 1 + 6 + 4 = 59 bytes.
/// C19 side: never a panic, only validated data comes back, and a transition whose type index has no type is refused.
#[kani::proof]
#[kani::unwind(26)]
fn tzif_v1_1_1() {
    let bytes = v1_file::<59>(1, 1);
    match TimeZone::from_tzif(&bytes) {
        Ok(tz) => {
            assert!(tz.validate().is_ok());
            assert!(bytes[48] == 0);
        }
        Err(_) => assert!(bytes[48] != 0),
    }
}
/// C18 side (decode): what comes back for a well-formed file is exactly what the bytes say, and a well-formed file is accepted.
#[kani::proof]
#[kani::unwind(26)]
fn tzif_v1_1_1_decode() {
    let bytes = v1_file::<59>(1, 1);
    kani::assume(bytes[48] == 0); // well-formed: the only type index refers to the only type
    match TimeZone::from_tzif(&bytes) {
        Ok(tz) => {
            assert!(tz.transitions.len() == 1 && tz.local_time_types.len() == 1);
            assert!(tz.transitions[0].unix_leap_time == i32::from_be_bytes([bytes[44], bytes[45], bytes[46], bytes[47]]) as i64);
            assert!(tz.transitions[0].local_time_type_index == 0);
            assert!(tz.local_time_types[0].utoff == i32::from_be_bytes([bytes[49], bytes[50], bytes[51], bytes[52]]));
            assert!(tz.extra_rule.is_none());
        }
        Err(_) => assert!(false),
    }
}

/// no transition, one type: 44 + 6 + 4 = 54 bytes (C19 side)
#[kani::proof]
#[kani::unwind(26)]
fn tzif_v1_0_1() {
    let bytes = v1_file::<54>(0, 1);
    match TimeZone::from_tzif(&bytes) {
        Ok(tz) => assert!(tz.validate().is_ok()),
        Err(_) => assert!(false),
    }
}
/// C18 side (decode)
#[kani::proof]
#[kani::unwind(26)]
fn tzif_v1_0_1_decode() {
    let bytes = v1_file::<54>(0, 1);
    match TimeZone::from_tzif(&bytes) {
        Ok(tz) => {
            assert!(tz.transitions.len() == 0 && tz.local_time_types.len() == 1);
            assert!(tz.local_time_types[0].utoff == i32::from_be_bytes([bytes[44], bytes[45], bytes[46], bytes[47]]));
            assert!(tz.extra_rule.is_none());
        }
        Err(_) => assert!(false),
    }
}

/// one transition and no type: must be refused (the lookup would index an empty table)
#[kani::proof]
#[kani::unwind(26)]
fn tzif_v1_1_0() {
    let bytes = v1_file::<53>(1, 0);
    assert!(TimeZone::from_tzif(&bytes).is_err());
}

