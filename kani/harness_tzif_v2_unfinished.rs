// NOT RUN: CBMC grew to 48 GB in 10 minutes on this harness (symbolic offsets into the file); measured, kept for reference.
// bounded Kani harness for the version-2/3 path of TimeZone::from_tzif (C18 decode / C19), modular:
// Header::parse is replaced by its contract (decided by harness header_parse_total: Err, or exactly 44 bytes consumed and the
// version and counts the bytes encode) - here: any supported version and small counts; TransitionRule::from_tz_string is
// replaced by "any result" (its panic-freedom and its value are the Verus contracts of unit tzparse).
use super::super::cursor::Cursor;
use super::super::errors::TimeZoneError;
use super::super::header::{Header, Version};
use super::super::transition_rule::{AlternateLocalTimeType, RuleDay, TransitionRule};
use super::{LocalTimeType, TimeZone};

fn any_version() -> Version {
    let k: u8 = kani::any();
    if k == 0 { Version::V1 } else if k == 1 { Version::V2 } else { Version::V3 }
}
fn stub_header_parse(cursor: &mut Cursor) -> Result<Header, TimeZoneError> {
    cursor.read_exact(44)?;
    if kani::any() {
        return Err(TimeZoneError::InvalidTzFile("stub"));
    }
    let transition_count: usize = if kani::any() { 1 } else { 0 };
    let type_count: usize = if kani::any() { 1 } else { 0 };
    Ok(Header { ver: any_version(), isut_count: 0, isstd_count: 0, leap_count: 0, transition_count, type_count, char_count: 0 })
}
fn any_rule_day() -> RuleDay {
    let k: u8 = kani::any();
    if k == 0 { RuleDay::JulianDayWithoutLeap(kani::any()) } else if k == 1 { RuleDay::JulianDayWithLeap(kani::any()) } else { RuleDay::MonthWeekDay(kani::any(), kani::any(), kani::any()) }
}
fn stub_from_tz_string(_footer: &[u8], _ext: bool) -> Result<Option<TransitionRule>, TimeZoneError> {
    let k: u8 = kani::any();
    if k == 0 {
        Err(TimeZoneError::InvalidTzFile("stub"))
    } else if k == 1 {
        Ok(None)
    } else if k == 2 {
        Ok(Some(TransitionRule::Fixed(LocalTimeType::new(kani::any(), kani::any()))))
    } else {
        Ok(Some(TransitionRule::Alternate(AlternateLocalTimeType::new(
            LocalTimeType::new(kani::any(), false), any_rule_day(), kani::any(),
            LocalTimeType::new(kani::any(), true), any_rule_day(), kani::any(),
        ))))
    }
}

/// two header/data blocks: the first empty or with one 4-byte transition / one type, the second with 0..1 transitions (4 or 8
/// byte times by the second header's version) and 0..1 types; 110 symbolic bytes are enough for every layout
#[kani::proof]
#[kani::unwind(12)]
#[kani::stub(Header::parse, stub_header_parse)]
#[kani::stub(TransitionRule::from_tz_string, stub_from_tz_string)]
fn tzif_v2_modular() {
    let bytes: [u8; 110] = kani::any();
    if let Ok(tz) = TimeZone::from_tzif(&bytes) {
        assert!(tz.validate().is_ok());
        assert!(tz.transitions.len() <= 1 && tz.local_time_types.len() <= 1);
    }
}
