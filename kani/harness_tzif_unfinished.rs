// Harnesses that do NOT finish within 15 minutes in this sandbox (CBMC 6.11 via Kani 0.68); kept for reference, not run by any check:
// two transitions / two types, a symbolic truncation length, and every version-2/3 layout (even with concrete lengths, concrete
// versions and the footer parser stubbed). Injected like harness_tzif.rs (child of src/local/timezone.rs); needs -Z stubbing.
use super::TimeZone;
fn v1_file<const N: usize>(ntrans: u8, ntypes: u8) -> [u8; N] {
    let mut b: [u8; N] = kani::any();
    b[0] = b'T'; b[1] = b'Z'; b[2] = b'i'; b[3] = b'f'; b[4] = 0;
    let mut i = 20;
    while i < 44 { b[i] = 0; i += 1; }
    b[35] = ntrans; b[39] = ntypes; b[43] = 4;
    b
}
/// two transitions, two types: 44 + 8 + 2 + 12 + 4 = 70 bytes
#[kani::proof]
#[kani::unwind(26)]
fn tzif_v1_2_2() {
    let bytes = v1_file::<70>(2, 2);
    match TimeZone::from_tzif(&bytes) {
        Ok(tz) => {
            assert!(tz.validate().is_ok());
            assert!(tz.transitions.len() == 2 && tz.local_time_types.len() == 2);
            assert!(tz.transitions[1].unix_leap_time == i32::from_be_bytes([bytes[48], bytes[49], bytes[50], bytes[51]]) as i64);
            assert!(tz.transitions[0].local_time_type_index == bytes[52] as usize && tz.transitions[1].local_time_type_index == bytes[53] as usize);
            assert!(tz.local_time_types[1].utoff == i32::from_be_bytes([bytes[60], bytes[61], bytes[62], bytes[63]]));
            assert!(bytes[52] < 2 && bytes[53] < 2);
        }
        Err(_) => assert!(bytes[52] >= 2 || bytes[53] >= 2),
    }
}

/// truncated file: any proper prefix of a 1/1 v1 file is refused, never a panic
#[kani::proof]
#[kani::unwind(26)]
fn tzif_v1_truncated() {
    let bytes = v1_file::<59>(1, 1);
    let len: usize = kani::any();
    kani::assume(len < 59);
    assert!(TimeZone::from_tzif(&bytes[..len]).is_err());
}

/// version 2/3: empty v1 block, second header with one 64-bit transition and one type, and an arbitrary footer of up to
/// 8 bytes. The footer parser is replaced by a stub returning ANY result (its own panic-freedom for every input is the
/// Verus contract of TransitionRule::from_tz_string); what is decided here is the 64-bit table decoding and that
/// whatever rule the footer parser returns goes through validate().
use super::super::transition_rule::{AlternateLocalTimeType, RuleDay, TransitionRule};
use super::super::errors::TimeZoneError;
use super::LocalTimeType;
fn any_rule_day() -> RuleDay {
    let k: u8 = kani::any();
    if k == 0 {
        RuleDay::JulianDayWithoutLeap(kani::any())
    } else if k == 1 {
        RuleDay::JulianDayWithLeap(kani::any())
    } else {
        RuleDay::MonthWeekDay(kani::any(), kani::any(), kani::any())
    }
}
fn stub_from_tz_string(_footer: &[u8], _ext: bool) -> Result<Option<TransitionRule>, TimeZoneError> {
    let k: u8 = kani::any();
    if k == 0 {
        Err(TimeZoneError::InvalidTzFile("stub"))
    } else if k == 1 {
        Ok(None)
    } else if k == 2 {
        Ok(Some(TransitionRule::Fixed(LocalTimeType::new(kani::any(), kani::any()))))
    } else {
        Ok(Some(TransitionRule::Alternate(AlternateLocalTimeType::new(
            LocalTimeType::new(kani::any(), false),
            any_rule_day(),
            kani::any(),
            LocalTimeType::new(kani::any(), true),
            any_rule_day(),
            kani::any(),
        ))))
    }
}
fn v2_file(ver: u8, ver2: u8) -> [u8; 107] {
    let mut b: [u8; 107] = kani::any();
    let mut k = 0;
    while k < 2 {
        let o = k * 44;
        b[o] = b'T'; b[o + 1] = b'Z'; b[o + 2] = b'i'; b[o + 3] = b'f'; b[o + 4] = if k == 0 { ver } else { ver2 };
        let mut i = o + 20;
        while i < o + 44 { b[i] = 0; i += 1; }
        k += 1;
    }
    // second header: 1 transition, 1 type, 4 designation bytes
    b[44 + 35] = 1; b[44 + 39] = 1; b[44 + 43] = 4;
    b
}
/// both headers carry the same version (2 or 3): 64-bit times
#[kani::proof]
#[kani::unwind(50)]
#[kani::stub(TransitionRule::from_tz_string, stub_from_tz_string)]
fn tzif_v2_1_1() {
    let ver: u8 = if kani::any() { b'2' } else { b'3' };
    let bytes = v2_file(ver, ver);
    match TimeZone::from_tzif(&bytes) {
        Ok(tz) => {
            assert!(tz.validate().is_ok());
            assert!(tz.transitions.len() == 1 && tz.local_time_types.len() == 1);
            assert!(tz.transitions[0].unix_leap_time == i64::from_be_bytes([bytes[88], bytes[89], bytes[90], bytes[91], bytes[92], bytes[93], bytes[94], bytes[95]]));
            assert!(tz.transitions[0].local_time_type_index == bytes[96] as usize && bytes[96] == 0);
            assert!(tz.local_time_types[0].utoff == i32::from_be_bytes([bytes[97], bytes[98], bytes[99], bytes[100]]));
        }
        Err(_) => {}
    }
}
/// the second header may carry any of the three versions, whatever the first says: never a panic
#[kani::proof]
#[kani::unwind(50)]
#[kani::stub(TransitionRule::from_tz_string, stub_from_tz_string)]
fn tzif_v2_mixed_versions() {
    let ver: u8 = if kani::any() { b'2' } else { b'3' };
    let k: u8 = kani::any();
    let ver2: u8 = if k == 0 { 0 } else if k == 1 { b'2' } else { b'3' };
    let bytes = v2_file(ver, ver2);
    if let Ok(tz) = TimeZone::from_tzif(&bytes) {
        assert!(tz.validate().is_ok());
        assert!(tz.transitions.len() == 1 && tz.local_time_types.len() == 1);
    }
}
fn stub_small(_footer: &[u8], _ext: bool) -> Result<Option<TransitionRule>, TimeZoneError> {
    if kani::any() { Ok(None) } else { Err(TimeZoneError::InvalidTzFile("stub")) }
}
#[kani::proof]
#[kani::unwind(50)]
#[kani::stub(TransitionRule::from_tz_string, stub_from_tz_string)]
fn tzif_v2_try_a() {
    let bytes = v2_file(b'2', b'2');
    if let Ok(tz) = TimeZone::from_tzif(&bytes) {
        assert!(tz.transitions.len() == 1 && tz.local_time_types.len() == 1);
    }
}
#[kani::proof]
#[kani::unwind(50)]
#[kani::stub(TransitionRule::from_tz_string, stub_small)]
fn tzif_v2_try_b() {
    let bytes = v2_file(b'2', b'2');
    if let Ok(tz) = TimeZone::from_tzif(&bytes) {
        assert!(tz.transitions.len() == 1 && tz.local_time_types.len() == 1);
    }
}
// Also measured: a version-2 file with 0 transitions and 1 type, footer parser stubbed, everything but the 10 table bytes concrete:
// no result in 10 minutes either.
