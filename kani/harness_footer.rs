// bounded Kani harness for the footer parser (C19): symbolic footers up to N bytes. Injected as a child of src/local/mod.rs.
use super::transition_rule::TransitionRule;

#[kani::proof]
#[kani::unwind(12)]
fn footer_bounded_8() {
    let bytes: [u8; 8] = kani::any();
    let len: usize = kani::any();
    kani::assume(len >= 2 && len <= 8);
    kani::assume(bytes[0] == b'\n');
    let ext: bool = kani::any();
    let r = TransitionRule::from_tz_string(&bytes[..len], ext);
    if let Ok(Some(rule)) = r {
        let _ = rule.validate();
    }
}
