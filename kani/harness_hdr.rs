// Kani harness for Header::parse (C19): the function is loop-free and reads at most 44 bytes, so 44 symbolic bytes with a
// symbolic length cover every input. Injected as a child module of src/local/mod.rs in a scratch copy of /repo.
use super::cursor::Cursor;
use super::header::Header;

#[kani::proof]
#[kani::unwind(6)]
fn header_parse_total() {
    let bytes: [u8; 48] = kani::any();
    let len: usize = kani::any();
    kani::assume(len <= 48);
    let mut cursor = Cursor::new(&bytes[..len]);
    // never panics; Ok only for complete headers with a supported version
    if let Ok(h) = Header::parse(&mut cursor) {
        assert!(len >= 44);
        assert!(bytes[0] == b'T' && bytes[1] == b'Z' && bytes[2] == b'i' && bytes[3] == b'f');
        assert!(bytes[4] == 0 || bytes[4] == 0x32 || bytes[4] == 0x33);
        assert!(h.transition_count == u32::from_be_bytes([bytes[32], bytes[33], bytes[34], bytes[35]]) as usize);
        assert!(h.type_count == u32::from_be_bytes([bytes[36], bytes[37], bytes[38], bytes[39]]) as usize);
    }
}
