// Kani harness for Header::parse (C18 decode / C19): the function is loop-free and reads at most 44 bytes, so 48 symbolic bytes
// with a symbolic length cover every input. Injected as a child module of src/local/mod.rs in a scratch copy of /repo.
use super::cursor::Cursor;
use super::header::{Header, Version};

fn be(b: &[u8; 48], i: usize) -> usize {
    u32::from_be_bytes([b[i], b[i + 1], b[i + 2], b[i + 3]]) as usize
}

#[kani::proof]
#[kani::unwind(6)]
fn header_parse_total() {
    let bytes: [u8; 48] = kani::any();
    let len: usize = kani::any();
    kani::assume(len <= 48);
    let mut cursor = Cursor::new(&bytes[..len]);
    let magic = bytes[0] == b'T' && bytes[1] == b'Z' && bytes[2] == b'i' && bytes[3] == b'f';
    let version = bytes[4] == 0 || bytes[4] == 0x32 || bytes[4] == 0x33;
    // never panics; Ok exactly for complete headers with the magic and a supported version; every field is what RFC 8536 lays out
    match Header::parse(&mut cursor) {
        Ok(h) => {
            assert!(len >= 44 && magic && version);
            assert!((h.ver == Version::V1) == (bytes[4] == 0) && (h.ver == Version::V2) == (bytes[4] == 0x32) && (h.ver == Version::V3) == (bytes[4] == 0x33));
            assert!(h.isut_count == be(&bytes, 20));
            assert!(h.isstd_count == be(&bytes, 24));
            assert!(h.leap_count == be(&bytes, 28));
            assert!(h.transition_count == be(&bytes, 32));
            assert!(h.type_count == be(&bytes, 36));
            assert!(h.char_count == be(&bytes, 40));
            // exactly the 44 header bytes are consumed
            assert!(cursor.remaining().len() == len - 44);
        }
        Err(_) => assert!(len < 44 || !magic || !version),
    }
}
