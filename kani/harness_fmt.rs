// Kani harnesses for C11: per (symbol, width) one loop-free harness over full-domain symbolic values.
// The renderers zero_padded / zero_padded_i / alloc::fmt::format are replaced by recording stubs, so what is
// decided is WHICH value is rendered at WHICH width in WHICH order - not the rendered characters.
// Injected as `#[cfg(kani)] mod verif_harness_fmt;` at the crate root of a scratch copy of /repo.
use crate::util::date::convert::{days_to_date, days_to_doy, days_to_wday, days_to_wyear};
use crate::util::format::{format_date_part, format_time_part};
use std::sync::atomic::{AtomicU64, AtomicUsize, Ordering::Relaxed};

static LOGN: AtomicUsize = AtomicUsize::new(0);
static LOG0: AtomicU64 = AtomicU64::new(0);
static LOG1: AtomicU64 = AtomicU64::new(0);
static LOG2: AtomicU64 = AtomicU64::new(0);

fn fmt_stub(_args: std::fmt::Arguments<'_>) -> String {
    String::new()
}
fn record(v: u64) {
    match LOGN.load(Relaxed) {
        0 => LOG0.store(v, Relaxed),
        1 => LOG1.store(v, Relaxed),
        _ => LOG2.store(v, Relaxed),
    }
    LOGN.store(LOGN.load(Relaxed) + 1, Relaxed);
}
fn zp_stub(number: u32, length: usize) -> String {
    record(((number as u64) << 8) | (length as u64 & 0xff));
    String::new()
}
fn zpi_stub(number: i32, length: usize) -> String {
    // sign in bit 40
    record((((number as i64 as u64) & 0xffff_ffff) << 8) | (length as u64 & 0xff) | (1u64 << 48));
    String::new()
}
fn one(value: u32, width: usize) -> bool {
    LOGN.load(Relaxed) == 1 && LOG0.load(Relaxed) == (((value as u64) << 8) | width as u64)
}
fn one_i(value: i32, width: usize) -> bool {
    LOGN.load(Relaxed) == 1
        && LOG0.load(Relaxed) == ((((value as i64 as u64) & 0xffff_ffff) << 8) | width as u64 | (1u64 << 48))
}
fn w22(len: usize) -> usize {
    if len > 2 { 2 } else { len }
}

macro_rules! time_row {
    ($name:ident, $pat:expr, |$n:ident, $off:ident| $check:expr) => {
        #[kani::proof]
        #[kani::unwind(4)]
        #[kani::stub(crate::util::format::zero_padded, zp_stub)]
        #[kani::stub(crate::util::format::zero_padded_i, zpi_stub)]
        #[kani::stub(alloc::fmt::format, fmt_stub)]
        fn $name() {
            let $n: u64 = kani::any();
            kani::assume($n < 86_400_000_000_000);
            let $off: i32 = kani::any();
            kani::assume($off > -86_400 && $off < 86_400);
            let _ = format_time_part($pat, $n, $off);
            assert!($check);
        }
    };
}
macro_rules! date_row {
    ($name:ident, $pat:expr, |$d:ident| $check:expr) => {
        #[kani::proof]
        #[kani::unwind(14)]
        #[kani::stub(crate::util::format::zero_padded, zp_stub)]
        #[kani::stub(crate::util::format::zero_padded_i, zpi_stub)]
        #[kani::stub(alloc::fmt::format, fmt_stub)]
        fn $name() {
            let $d: i32 = kani::any();
            let _ = format_date_part($pat, $d);
            assert!($check);
        }
    };
}

fn hour(n: u64) -> u32 { (n / 3_600_000_000_000) as u32 }
fn minute(n: u64) -> u32 { (n / 60_000_000_000 % 60) as u32 }
fn second(n: u64) -> u32 { (n / 1_000_000_000 % 60) as u32 }
fn h12(n: u64) -> u32 { if hour(n) % 12 == 0 { 12 } else { hour(n) % 12 } }
fn k24(n: u64) -> u32 { if hour(n) == 0 { 24 } else { hour(n) } }
fn sub(n: u64, digits: u32) -> u32 { ((n % 1_000_000_000) as u32) / 10u32.pow(9 - digits) }

include!("harness_fmt_rows.rs");
