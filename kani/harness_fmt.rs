// Kani harnesses for C11: per (symbol, width) one loop-free harness over full-domain symbolic values.
// The renderers zero_padded / zero_padded_i / alloc::fmt::format are replaced by recording stubs, so what is
// decided is WHICH value is rendered at WHICH width in WHICH order - not the rendered characters.
// Injected as `#[cfg(kani)] mod verif_harness_fmt;` at the crate root of a scratch copy of /repo.
use crate::util::constants::{MONTH_ABBREVIATED, MONTH_NARROW, MONTH_WIDE, WDAY_ABBREVIATED, WDAY_NARROW, WDAY_SHORT, WDAY_WIDE};
use crate::util::format::{format_date_part, format_part, format_time_part};
use std::sync::atomic::{AtomicU64, AtomicUsize, Ordering::Relaxed};

static LOGN: AtomicUsize = AtomicUsize::new(0);
static LOG0: AtomicU64 = AtomicU64::new(0);
static LOG1: AtomicU64 = AtomicU64::new(0);
static LOG2: AtomicU64 = AtomicU64::new(0);

fn fmt_stub(_args: std::fmt::Arguments<'_>) -> String {
    String::new()
}
fn record(v: u64) {
    match LOGN.load(Relaxed) {
        0 => LOG0.store(v, Relaxed),
        1 => LOG1.store(v, Relaxed),
        _ => LOG2.store(v, Relaxed),
    }
    LOGN.store(LOGN.load(Relaxed) + 1, Relaxed);
}
fn zp_stub(number: u32, length: usize) -> String {
    record(((number as u64) << 8) | (length as u64 & 0xff));
    String::new()
}
fn zpi_stub(number: i32, length: usize) -> String {
    // sign in bit 40
    record((((number as i64 as u64) & 0xffff_ffff) << 8) | (length as u64 & 0xff) | (1u64 << 48));
    String::new()
}
fn one(value: u32, width: usize) -> bool {
    LOGN.load(Relaxed) == 1 && LOG0.load(Relaxed) == (((value as u64) << 8) | width as u64)
}
fn one_i(value: i32, width: usize) -> bool {
    LOGN.load(Relaxed) == 1
        && LOG0.load(Relaxed) == ((((value as i64 as u64) & 0xffff_ffff) << 8) | width as u64 | (1u64 << 48))
}
fn w22(len: usize) -> usize {
    if len > 2 { 2 } else { len }
}

// time rows: the time of day is built from its fields (multiplications), so that the harness does not repeat the
// divisions of nanos_to_time; every time of day below 24 h has exactly one such decomposition
macro_rules! time_row {
    ($name:ident, $pat:expr, |$h:ident, $m:ident, $s:ident| $check:expr) => {
        #[kani::proof]
        #[kani::unwind(4)]
        #[kani::stub(crate::util::format::zero_padded, zp_stub)]
        #[kani::stub(crate::util::format::zero_padded_i, zpi_stub)]
        #[kani::stub(alloc::fmt::format, fmt_stub)]
        fn $name() {
            let $h: u32 = kani::any();
            let $m: u32 = kani::any();
            let $s: u32 = kani::any();
            let sub: u32 = kani::any();
            kani::assume($h < 24 && $m < 60 && $s < 60 && sub < 1_000_000_000);
            let n: u64 = (($h as u64 * 60 + $m as u64) * 60 + $s as u64) * 1_000_000_000 + sub as u64;
            let off: i32 = kani::any();
            kani::assume(off > -86_400 && off < 86_400);
            let _ = format_time_part($pat, n, off);
            assert!($check);
        }
    };
}
// the calendar getters are replaced by their contracts' shape: arbitrary in-range values, remembered so that the
// row assertion can say "the value rendered is the one the getter returned" (the getters themselves are C01/C02)
static G_Y: AtomicU64 = AtomicU64::new(0);
static G_M: AtomicU64 = AtomicU64::new(0);
static G_D: AtomicU64 = AtomicU64::new(0);
static G_DOY: AtomicU64 = AtomicU64::new(0);
static G_WD: AtomicU64 = AtomicU64::new(0);
static G_WDM: AtomicU64 = AtomicU64::new(0);
static G_WY: AtomicU64 = AtomicU64::new(0);
static G_INIT: AtomicUsize = AtomicUsize::new(0);
fn getters_init() {
    if G_INIT.load(Relaxed) == 0 {
        let y: i32 = kani::any();
        kani::assume(y != 0 && y >= -5_879_611 && y <= 5_879_611);
        let m: u32 = kani::any();
        kani::assume(m >= 1 && m <= 12);
        let d: u32 = kani::any();
        kani::assume(d >= 1 && d <= 31);
        let doy: u32 = kani::any();
        kani::assume(doy >= 1 && doy <= 366);
        let wd: u32 = kani::any();
        kani::assume(wd <= 6);
        let wy: u32 = kani::any();
        kani::assume(wy >= 1 && wy <= 53);
        G_Y.store(y as i64 as u64, Relaxed);
        G_M.store(m as u64, Relaxed);
        G_D.store(d as u64, Relaxed);
        G_DOY.store(doy as u64, Relaxed);
        G_WD.store(wd as u64, Relaxed);
        G_WDM.store(((wd + 6) % 7) as u64, Relaxed);
        G_WY.store(wy as u64, Relaxed);
        G_INIT.store(1, Relaxed);
    }
}
fn d2d_stub(_days: i32) -> (i32, u32, u32) {
    getters_init();
    (G_Y.load(Relaxed) as i64 as i32, G_M.load(Relaxed) as u32, G_D.load(Relaxed) as u32)
}
fn doy_stub(_days: i32) -> u32 { getters_init(); G_DOY.load(Relaxed) as u32 }
fn wday_stub(_days: i32, monday_first: bool) -> u32 {
    getters_init();
    if monday_first { G_WDM.load(Relaxed) as u32 } else { G_WD.load(Relaxed) as u32 }
}
fn wyear_stub(_days: i32) -> u32 { getters_init(); G_WY.load(Relaxed) as u32 }
fn gy() -> i32 { getters_init(); G_Y.load(Relaxed) as i64 as i32 }
fn gm() -> u32 { getters_init(); G_M.load(Relaxed) as u32 }
fn gd() -> u32 { getters_init(); G_D.load(Relaxed) as u32 }
fn gdoy() -> u32 { getters_init(); G_DOY.load(Relaxed) as u32 }
fn gwd() -> u32 { getters_init(); G_WD.load(Relaxed) as u32 }
fn gwdm() -> u32 { getters_init(); G_WDM.load(Relaxed) as u32 }
fn gwy() -> u32 { getters_init(); G_WY.load(Relaxed) as u32 }

macro_rules! date_row {
    ($name:ident, $pat:expr, |$d:ident| $check:expr) => {
        #[kani::proof]
        #[kani::unwind(4)]
        #[kani::stub(crate::util::format::zero_padded, zp_stub)]
        #[kani::stub(crate::util::format::zero_padded_i, zpi_stub)]
        #[kani::stub(alloc::fmt::format, fmt_stub)]
        #[kani::stub(crate::util::date::convert::days_to_date, d2d_stub)]
        #[kani::stub(crate::util::date::convert::days_to_doy, doy_stub)]
        #[kani::stub(crate::util::date::convert::days_to_wday, wday_stub)]
        #[kani::stub(crate::util::date::convert::days_to_wyear, wyear_stub)]
        fn $name() {
            let $d: i32 = kani::any();
            let _ = format_date_part($pat, $d);
            assert!($check);
        }
    };
}

// zone rows: which of hour / minute / second of |offset| are rendered (each at width 2) and in which order
fn rec(i: usize) -> u64 { match i { 0 => LOG0.load(Relaxed), 1 => LOG1.load(Relaxed), _ => LOG2.load(Relaxed) } }
fn enc(value: u32, width: usize) -> u64 { ((value as u64) << 8) | width as u64 }
macro_rules! zone_row {
    ($name:ident, $pat:expr, $with_z:expr, $shape:expr) => {
        #[kani::proof]
        #[kani::unwind(4)]
        #[kani::stub(crate::util::format::zero_padded, zp_stub)]
        #[kani::stub(crate::util::format::zero_padded_i, zpi_stub)]
        #[kani::stub(alloc::fmt::format, fmt_stub)]
        fn $name() {
            let off: i32 = kani::any();
            kani::assume(off > -86_400 && off < 86_400);
            let _ = format_time_part($pat, 0, off);
            let a = off.unsigned_abs();
            let (h, m, s) = (a / 3600, a % 3600 / 60, a % 60);
            let n = LOGN.load(Relaxed);
            if $with_z && off == 0 {
                assert!(n == 0);
            } else {
                // shape 1: hour [minute if != 0]; 2: hour minute; 4/5: hour minute [second if != 0]
                assert!(rec(0) == enc(h, 2));
                match $shape {
                    1 => assert!(if m != 0 { n == 2 && rec(1) == enc(m, 2) } else { n == 1 }),
                    2 => assert!(n == 2 && rec(1) == enc(m, 2)),
                    _ => assert!(rec(1) == enc(m, 2) && if s != 0 { n == 3 && rec(2) == enc(s, 2) } else { n == 2 }),
                }
            }
        }
    };
}

// name rows: the returned text is one entry of an English table (or a fixed word); string equality on short constants
macro_rules! name_row {
    ($name:ident, $pat:expr, |$d:ident, $n:ident, $r:ident| $check:expr) => {
        #[kani::proof]
        #[kani::unwind(16)]
        #[kani::stub(crate::util::format::zero_padded, zp_stub)]
        #[kani::stub(crate::util::format::zero_padded_i, zpi_stub)]
        #[kani::stub(alloc::fmt::format, fmt_stub)]
        #[kani::stub(crate::util::date::convert::days_to_date, d2d_stub)]
        #[kani::stub(crate::util::date::convert::days_to_doy, doy_stub)]
        #[kani::stub(crate::util::date::convert::days_to_wday, wday_stub)]
        #[kani::stub(crate::util::date::convert::days_to_wyear, wyear_stub)]
        fn $name() {
            let $d: i32 = kani::any();
            let secs: u32 = kani::any();
            kani::assume(secs < 86_400);
            let sub: u32 = kani::any();
            kani::assume(sub < 1_000_000_000);
            let $n: u64 = secs as u64 * 1_000_000_000 + sub as u64;
            let off: i32 = kani::any();
            kani::assume(off > -86_400 && off < 86_400);
            // through the dispatcher used by DateTime::format
            let $r = format_part($pat, $d, $n, off);
            assert!($check);
        }
    };
}
fn period(n: u64, table: [&'static str; 4], separate_12: bool) -> &'static str {
    let t = n / 1_000_000_000;
    if separate_12 && t == 0 { table[3] } else if separate_12 && t == 43_200 { table[2] } else if t < 43_200 { table[0] } else { table[1] }
}
// dispatch rows: DateTime::format goes through format_part; the same row assertions must hold through it
macro_rules! dispatch_row {
    ($name:ident, $pat:expr, |$h:ident, $m:ident, $s:ident| $check:expr) => {
        #[kani::proof]
        #[kani::unwind(4)]
        #[kani::stub(crate::util::format::zero_padded, zp_stub)]
        #[kani::stub(crate::util::format::zero_padded_i, zpi_stub)]
        #[kani::stub(alloc::fmt::format, fmt_stub)]
        #[kani::stub(crate::util::date::convert::days_to_date, d2d_stub)]
        #[kani::stub(crate::util::date::convert::days_to_doy, doy_stub)]
        #[kani::stub(crate::util::date::convert::days_to_wday, wday_stub)]
        #[kani::stub(crate::util::date::convert::days_to_wyear, wyear_stub)]
        fn $name() {
            let $h: u32 = kani::any();
            let $m: u32 = kani::any();
            let $s: u32 = kani::any();
            kani::assume($h < 24 && $m < 60 && $s < 60);
            let n: u64 = (($h as u64 * 60 + $m as u64) * 60 + $s as u64) * 1_000_000_000;
            let d: i32 = kani::any();
            let off: i32 = kani::any();
            kani::assume(off > -86_400 && off < 86_400);
            let _ = format_part($pat, d, n, off);
            assert!($check);
        }
    };
}

include!("harness_fmt_rows.rs");
