// NOT RUN: even footers of 2 symbolic bytes do not finish in 10 minutes (str::from_utf8, trim_matches, char searchers). The unbounded statement is the Verus contract of from_tz_string.
// The unbounded statement (panic-free for every byte string) is the Verus contract of TransitionRule::from_tz_string; this
// stand-in still decides the shortest footers when a change takes the function outside what Verus can read.
use super::transition_rule::TransitionRule;

#[kani::proof]
#[kani::unwind(8)]
fn footer_bounded_2() {
    let bytes: [u8; 2] = kani::any();
    let len: usize = kani::any();
    kani::assume(len <= 2);
    let ext: bool = kani::any();
    let r = TransitionRule::from_tz_string(&bytes[..len], ext);
    if let Ok(Some(rule)) = r {
        let _ = rule.validate();
    }
}
#[kani::proof]
#[kani::unwind(8)]
fn footer_bounded_3() {
    let bytes: [u8; 3] = kani::any();
    let ext: bool = kani::any();
    let r = TransitionRule::from_tz_string(&bytes, ext);
    if let Ok(Some(rule)) = r {
        let _ = rule.validate();
    }
}
