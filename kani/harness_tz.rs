// Kani harnesses for the TZif byte parser (C19, bounded). Injected as a child module of src/local/timezone.rs
// in a scratch copy of /repo, so that the private `validate` is reachable.
use super::TimeZone;

/// v1 files up to 64 bytes (44 header + up to 20 data bytes), any truncation point, header counts <= 1/1/1/2/2/4
#[kani::proof]
#[kani::unwind(6)]
fn tzif_v1_bounded() {
    let mut bytes: [u8; 64] = kani::any();
    bytes[0] = b'T'; bytes[1] = b'Z'; bytes[2] = b'i'; bytes[3] = b'f'; bytes[4] = 0;
    bytes[20] = 0;
    bytes[21] = 0;
    bytes[22] = 0;
    bytes[24] = 0;
    bytes[25] = 0;
    bytes[26] = 0;
    bytes[28] = 0;
    bytes[29] = 0;
    bytes[30] = 0;
    bytes[32] = 0;
    bytes[33] = 0;
    bytes[34] = 0;
    bytes[36] = 0;
    bytes[37] = 0;
    bytes[38] = 0;
    bytes[40] = 0;
    bytes[41] = 0;
    bytes[42] = 0;
    kani::assume(bytes[23] <= 1 && bytes[27] <= 1 && bytes[31] <= 1 && bytes[35] <= 2 && bytes[39] <= 2 && bytes[43] <= 4);
    let len: usize = kani::any();
    kani::assume(len >= 5 && len <= 64);
    if let Ok(tz) = TimeZone::from_tzif(&bytes[..len]) {
        assert!(tz.validate().is_ok());
    }
}
