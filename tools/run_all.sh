#!/bin/sh
# runs every claimed check (quick tier) on /repo as it is; used to regenerate the committed evidence
cd /verif
tier=${1:-quick}
rc=0
for p in $(python3 -c "import json; print(' '.join(c['property_id'] for c in json.load(open('MANIFEST.json'))['checks']))"); do
  ./check $p --tier $tier || rc=1
done
exit $rc
