#!/usr/bin/env python3
"""./check --replay <file>: re-decides the obligation recorded in a replay file against /repo's current tree.
A replay file names the failed obligation (unit, function, clause) and carries the verifier's output; Kani rows also
carry the concrete bytes. Exit 1 + VIOLATION line if the obligation still fails, 0 if it verifies now, 2 if undecided."""
import json
import os
import sys

HERE = os.path.dirname(os.path.abspath(__file__))
sys.path.insert(0, HERE)


def replay(path):
    rec = json.load(open(path))
    prop = rec['property']
    print('replaying %s: %s' % (prop, rec.get('obligation')))
    if rec.get('inputs') and isinstance(rec['inputs'], dict) and 'case' in rec['inputs']:
        import cesearch, driver as _d
        sc = os.path.join(_d.SCRATCH_ROOT, 'replayce-%d' % os.getpid())
        os.makedirs(sc, exist_ok=True)
        try:
            cesearch.replay_case(rec, sc)
        finally:
            import shutil as _sh
            _sh.rmtree(sc, ignore_errors=True)
    elif rec.get('inputs'):
        print('counterexample recorded by the verifier:')
        print(rec['inputs'])
    if 'kani' in os.path.basename(path):
        import kani_engine
        return kani_engine.run(prop, 'quick', 0)
    import driver
    units = [u for u in driver.load_units() if u['name'] == rec.get('unit')]
    if not units:
        print('UNDECIDED unit %s no longer exists' % rec.get('unit'))
        return 2
    scratch = os.path.join(driver.SCRATCH_ROOT, 'replay-%d' % os.getpid())
    os.makedirs(scratch, exist_ok=True)
    try:
        r = driver.run_unit(units[0], rec.get('variant', 'A'), scratch)
        if r.status == 'undecided':
            print('UNDECIDED %s' % r.reason)
            return 2
        errs = [e for e in r.errors if e['fn'] == rec.get('function')]
        if errs:
            print(errs[0]['rendered'])
            print('VIOLATION property=%s replay=%s%s' % (prop, path, '' if rec.get('inputs') else ' no-failing-input-found'))
            return 1
        print('obligation %s::%s verifies on the current tree' % (rec.get('unit'), rec.get('function')))
        return 0
    finally:
        import shutil
        shutil.rmtree(scratch, ignore_errors=True)
