#!/usr/bin/env python3
"""Driver: builds units from /repo's working tree, runs Verus, maps failures to named
obligations, looks for counterexamples, writes evidence.  See DESIGN.md section 2."""
import concurrent.futures as cf
import hashlib
import json
import os
import re
import shutil
import subprocess
import sys
import time

HERE = os.path.dirname(os.path.abspath(__file__))
VERIF = os.path.dirname(HERE)
sys.path.insert(0, HERE)
import extract  # noqa: E402

REPO = os.environ.get('VERIF_REPO', '/repo')
SCRATCH_ROOT = os.environ.get('VERIF_SCRATCH', '/root/.cache/astrolabe-verif')
VERUS = shutil.which('verus') or '/opt/veriftools/verus/verus'

DEFINITE = (
    'postcondition not satisfied', 'precondition not satisfied', 'assertion failed',
    'possible arithmetic underflow/overflow', 'invariant not satisfied',
    'possible division by zero', 'possible bit shift underflow/overflow',
    'loop invariant not satisfied', 'invariant not satisfied at end of loop body',
    'invariant not satisfied before loop', 'recommendation not met', 'decreases not satisfied',
    'possible truncation', 'index out of bounds', 'possible out-of-bounds',
    'unreachable', 'assertion failure', 'failed this postcondition', 'cannot show invariant holds',
    'loop ensures not satisfied', 'could not show termination', 'split',
)


def load_units():
    with open(os.path.join(VERIF, 'contracts', 'units.json')) as f:
        return json.load(f)


def load_findings():
    """known_findings.txt: lines `finding: property=<id> obligation=<fn> <text>` and `fixed: ...`."""
    out = []
    p = os.path.join(VERIF, 'known_findings.txt')
    if os.path.exists(p):
        for ln in open(p):
            ln = ln.strip()
            if ln.startswith('finding:'):
                kv = dict(re.findall(r'(\w+)=(\S+)', ln))
                kv['line'] = ln
                out.append(kv)
    return out


class UnitRun:
    def __init__(self, unit, variant):
        self.unit = unit
        self.variant = variant
        self.built = None
        self.path = None
        self.status = None          # 'ok' | 'fail' | 'undecided'
        self.reason = ''
        self.fn_results = {}        # fn -> dict(success, time_ms, rlimit)
        self.errors = []            # dict(fn, message, line, text, definite, rendered)
        self.wall = 0.0
        self.verified = 0
        self.cmd = ''


def fn_at_line(built, line):
    """Enclosing function name of a generated-file line (1-based), by nearest preceding `fn name`."""
    for name, meta in built.fns.items():
        if meta.get('first') and meta['first'] <= line <= meta['last']:
            return name
    pat = re.compile(r'\bfn\s+(\w+)')
    for i in range(min(line, len(built.lines)) - 1, -1, -1):
        ln = built.lines[i]
        if built.origin[i]['k'] == 'tmpl' or True:
            m = pat.search(ln)
            if m and not ln.strip().startswith('//'):
                return m.group(1)
    return None


def run_unit(unit, variant, scratch, rlimit=None, seed=None, extra_tag='', only_fn=None, smt_override=None):
    r = UnitRun(unit, variant)
    t0 = time.time()
    tmpl = os.path.join(VERIF, 'contracts', unit['template'])
    try:
        r.built = extract.build_unit(tmpl, REPO, variant)
    except extract.ExtractError as e:
        r.status = 'undecided'
        r.reason = 'extract: %s' % e
        r.wall = time.time() - t0
        return r
    base = '%s_%s%s' % (unit['name'], variant, extra_tag)
    r.path = os.path.join(scratch, base + '.rs')
    with open(r.path, 'w') as f:
        f.write('\n'.join(r.built.lines) + '\n')
    cmd = [VERUS, r.path, '--output-json', '--time', '--triggers-mode', 'silent', '--crate-name', base]
    if rlimit:
        cmd += ['--rlimit', str(rlimit)]
    elif unit.get('rlimit'):
        cmd += ['--rlimit', str(unit['rlimit'])]
    for o in (smt_override if smt_override is not None else unit.get('smt_options', ['smt.arith.nl=true'])):
        cmd += ['--smt-option', o]
    if seed:
        cmd += ['--smt-option', 'smt.random_seed=%d' % seed, '--smt-option', 'sat.random_seed=%d' % seed]
    if only_fn:
        cmd += ['--verify-root', '--verify-function', only_fn.split('@')[0]]
    cmd += ['--', '--error-format=json']
    r.cmd = ' '.join(cmd)
    try:
        p = subprocess.run(cmd, cwd=scratch, capture_output=True, text=True, timeout=(150 if only_fn else unit.get('timeout', 900)))
        if only_fn and 'more than one match found for --verify-function' in (p.stderr + p.stdout):
            # --verify-function matches by substring (parse / parse_hms / ..): check the whole unit instead, the caller filters by function
            k = cmd.index('--verify-root')
            cmd = cmd[:k] + cmd[k + 3:]
            r.cmd = ' '.join(cmd)
            p = subprocess.run(cmd, cwd=scratch, capture_output=True, text=True, timeout=unit.get('timeout', 900))
    except subprocess.TimeoutExpired:
        r.status = 'undecided'
        r.reason = 'verus timeout'
        r.wall = time.time() - t0
        return r
    r.wall = time.time() - t0
    try:
        js = json.loads(p.stdout)
    except Exception:
        js = None
    diags = []
    for ln in p.stderr.split('\n'):
        ln = ln.strip()
        if ln.startswith('{'):
            try:
                diags.append(json.loads(ln))
            except Exception:
                pass
    if js is None:
        r.status = 'undecided'
        r.reason = 'verus produced no JSON: ' + p.stderr[-2000:]
        return r
    vr = js.get('verification-results', {})
    r.verified = vr.get('verified', 0)
    for m in js.get('times-ms', {}).get('smt', {}).get('smt-run-module-times', []):
        for fb in m.get('function-breakdown', []):
            name = fb['function'].split('::')[-1]
            full = fb['function']
            key = name
            # methods: crate::Type::name or impl&%n::name -> keep last segment; collisions keep worst
            prev = r.fn_results.get(key)
            cur = {'success': fb['success'], 'time_ms': fb['time'], 'rlimit': fb['rlimit'], 'full': full}
            if prev is None or (prev['success'] and not cur['success']):
                r.fn_results[key] = cur
            elif prev is not None:
                prev['time_ms'] += cur['time_ms']
    for d in diags:
        if d.get('level') != 'error':
            continue
        msg = d.get('message', '')
        if msg.startswith('aborting due to'):
            continue
        prim = [s for s in d.get('spans', []) if s.get('is_primary')]
        line = prim[0]['line_start'] if prim else None
        text = prim[0]['text'][0]['text'].strip() if prim and prim[0].get('text') else ''
        label = prim[0].get('label') if prim else ''
        fn = fn_at_line(r.built, line) if line else None
        definite = any(msg.startswith(x) for x in DEFINITE) and 'rlimit' not in msg
        r.errors.append({'fn': fn, 'message': msg, 'line': line, 'text': text, 'label': label,
                         'definite': definite, 'rendered': d.get('rendered', '')})
    if vr.get('encountered-vir-error') or (not r.fn_results and r.errors):
        r.status = 'undecided'
        r.reason = 'verus rejected the extracted file: ' + '; '.join(e['message'] for e in r.errors[:3])
    elif vr.get('success'):
        r.status = 'ok'
    else:
        r.status = 'fail'
        if not r.errors:
            r.status = 'undecided'
            r.reason = 'verus failed without diagnostics: ' + p.stderr[-1500:]
    return r


def obligation_name(unit, variant, err):
    txt = re.sub(r'\s+', ' ', err['text'])[:160]
    return '%s/%s::%s [%s] %s' % (unit, variant, err['fn'], err['message'], txt)


def scan_assumptions(built):
    """Mechanical scan of the generated file for trusted constructs."""
    hits = {}
    pats = ['assume(', 'admit(', 'external_body', 'assume_specification', 'verifier::external', 'verifier::truncate',
            'external_type_specification', 'verifier::exec_allows_no_decreases_clause']
    for i, ln in enumerate(built.lines):
        code = ln.split('//')[0]
        for p in pats:
            if p in code:
                hits.setdefault(p, []).append(i + 1)
    return hits


# ----------------------------------------------------------------------------------------
# property-level check
# ----------------------------------------------------------------------------------------

def units_for(prop, units):
    return [u for u in units if prop in u['props']]


_CALL = re.compile(r'(?P<pre>\.|::)?\b(?P<name>[a-z_][a-z0-9_]*)\s*\(')


def dependency_closure(prop, units):
    """Function-level call-graph closure: the functions tagged with `prop` plus every contracted function they
    (transitively) call, by source name. Returns {unit name: set(out fn names)} for the non-assumed definitions."""
    defs = {}     # out name -> list of (unit, meta, body)
    boundary = set(u['name'] for u in units if u.get('boundary'))
    for u in units:
        tmpl = os.path.join(VERIF, 'contracts', u['template'])
        try:
            b = extract.build_unit(tmpl, REPO, u.get('variants', ['A'])[0])
        except extract.ExtractError:
            continue
        for name, meta in b.fns.items():
            if meta.get('assumed') or meta.get('ghost') or meta.get('first') is None:
                continue
            if meta.get('expect_fail') and prop not in meta.get('props', []):
                continue
            body = '\n'.join(t for t, o in zip(b.lines[meta['first'] - 1:meta['last']], b.origin[meta['first'] - 1:meta['last']]) if o['k'] == 'src')
            defs.setdefault(meta.get('src_name') or name, []).append((u['name'], name, meta, body))
    by_out = {}
    for src, lst in defs.items():
        for (un, out, meta, body) in lst:
            by_out[(un, out)] = (src, meta, body)
    work = [(un, out) for (un, out), (src, meta, body) in by_out.items() if prop in meta.get('props', [])]
    seen = set(work)
    while work:
        un, out = work.pop()
        src, meta, body = by_out[(un, out)]
        # skip the signature: only calls in the body count
        i = body.find('{')
        for m in _CALL.finditer(body[i + 1:] if i >= 0 else body):
            callee = m.group('name')
            if callee not in defs:
                continue
            for (un2, out2, meta2, body2) in defs[callee]:
                is_method = meta2.get('impl') is not None
                if m.group('pre') == '.' and not is_method:
                    continue
                if m.group('pre') is None and is_method:
                    continue
                # a unit marked "boundary" proves a function that every other unit sees through a declared contract (Offset::resolve:
                # Fixed -> itself, Local -> arbitrary); its functions belong to a check only for the properties they are tagged with
                if un2 in boundary and prop not in meta2.get('props', []):
                    continue
                if (un2, out2) not in seen:
                    seen.add((un2, out2))
                    work.append((un2, out2))
    res = {}
    for un, out in seen:
        res.setdefault(un, set()).add(out)
    return res


def check_property(prop, tier='quick', seed=0, keep=False):
    t0 = time.time()
    units = load_units()
    closure = dependency_closure(prop, units)
    mine = [u for u in units if prop in u['props'] or u['name'] in closure]
    if not mine:
        print('no units serve %s' % prop)
        return 2
    global _CLOSURE
    _CLOSURE = closure
    scratch = os.path.join(SCRATCH_ROOT, '%s-%d' % (prop, os.getpid()))
    os.makedirs(scratch, exist_ok=True)
    findings = [f for f in load_findings() if f.get('property') == prop]
    try:
        return _check_property(prop, tier, seed, mine, scratch, findings, t0)
    finally:
        if not keep:
            shutil.rmtree(scratch, ignore_errors=True)


_CLOSURE = {}


def _relevant(meta, prop, unit=None, name=None):
    if prop in meta.get('props', []):
        return True
    return unit is not None and name in _CLOSURE.get(unit, ())


# Bounded / loop-free Kani harnesses for code outside Verus' reach (slice patterns, iterator adapters). kind says what the
# harness is: 'complete' = loop-free over the full input domain of the function; 'bounded' = a stated bound, never counted as proved.
KANI_STANDINS = {
    'C19': [
        dict(host='src/local/mod.rs', file='harness_hdr.rs', mod='verif_harness_hdr', harness='header_parse_total', function='Header::parse', kind='complete', tiers=('quick', 'thorough'),
             label='Header::parse never panics, returns Ok exactly for complete headers with the TZif magic and version 1/2/3, decodes the version and all six counts as RFC 8536 lays them out (big-endian u32 at 20..44) and consumes exactly 44 bytes (Kani/CBMC, loop-free, every input of up to 48 bytes: the function reads 44)'),
        dict(host='src/local/timezone.rs', file='harness_tzif.rs', mod='verif_harness_tzif', harness='tzif_v1_1_1', function='TimeZone::from_tzif', kind='bounded', tiers=('quick', 'thorough'),
             label='BOUNDED (version-1 file, exactly 1 transition and 1 type, all 15 table bytes symbolic): from_tzif never panics, returns only data that passes validate(), Ok exactly when the type index is 0'),
        dict(host='src/local/timezone.rs', file='harness_tzif.rs', mod='verif_harness_tzif', harness='tzif_v1_1_0', function='TimeZone::from_tzif', kind='bounded', tiers=('quick', 'thorough'),
             label='BOUNDED (version-1 file, 1 transition, 0 types, table bytes symbolic): from_tzif refuses the file'),
        dict(host='src/local/timezone.rs', file='harness_tzif.rs', mod='verif_harness_tzif', harness='tzif_v1_0_1', function='TimeZone::from_tzif', kind='bounded', tiers=('thorough',),
             label='BOUNDED (version-1 file, 0 transitions, 1 type, table bytes symbolic): from_tzif accepts the file without a panic'),
    ],
    'C18': [
        dict(host='src/local/mod.rs', file='harness_hdr.rs', mod='verif_harness_hdr', harness='header_parse_total', function='Header::parse', kind='complete', tiers=('quick', 'thorough'),
             label='Header::parse decodes the version and all six counts as RFC 8536 lays them out and consumes exactly 44 bytes (Kani/CBMC, loop-free, every input of up to 48 bytes)'),
        dict(host='src/local/timezone.rs', file='harness_tzif.rs', mod='verif_harness_tzif', harness='tzif_v1_1_1_decode', function='TimeZone::from_tzif', kind='bounded', tiers=('quick', 'thorough'),
             label='BOUNDED (version-1 file, exactly 1 transition and 1 type, well-formed type index, table bytes symbolic): the file is accepted and the decoded transition time, type index and utoff are the big-endian values of the bytes'),
        dict(host='src/local/timezone.rs', file='harness_tzif.rs', mod='verif_harness_tzif', harness='tzif_v1_0_1_decode', function='TimeZone::from_tzif', kind='bounded', tiers=('quick', 'thorough'),
             label='BOUNDED (version-1 file, 0 transitions, 1 type): the file is accepted, the decoded utoff is the big-endian value of the bytes, no rule'),
    ],
}


def _closure_audit():
    try:
        import audit_closure
        r = audit_closure.audit(REPO)
        return {'assumed_contracts': r['assumed_contracts'], 'functions_proved': r['distinct_functions_proved'],
                'assumed_but_proved_nowhere': r['assumed_but_proved_nowhere'][:40]}
    except Exception as ex:
        return {'error': repr(ex)}


def _check_property(prop, tier, seed, mine, scratch, findings, t0):
    import kani_engine
    kani_pool = cf.ThreadPoolExecutor(max_workers=5)
    audit_fut = kani_pool.submit(_closure_audit)
    kani_futs = []
    for n, st in enumerate(KANI_STANDINS.get(prop, [])):
        if tier in st['tiers']:
            kani_futs.append((st, kani_pool.submit(kani_engine.run_single, st['host'], os.path.join(VERIF, 'kani', st['file']), st['mod'], st['harness'], scratch,
                                                    900, 'kani%d' % n, st.get('stubbing', False))))
    jobs = []
    for u in mine:
        for v in u.get('variants', ['A']):
            jobs.append((u, v))
    runs = []
    seeds = [None] if tier == 'quick' else [None, 1 + seed, 2 + seed]
    with cf.ThreadPoolExecutor(max_workers=min(8, max(1, len(jobs)))) as ex:
        futs = [ex.submit(run_unit, u, v, scratch) for (u, v) in jobs]
        runs = [f.result() for f in futs]

    undecided = []
    violations = []       # (run, err)
    known_lines = []
    obligations = 0
    discharged = 0
    fn_rows = []
    samples = []
    assumptions = set()
    norm_counts = {}
    items = {}
    unstable = []
    canary_ok = True
    baseline = _load_baseline()

    for r in runs:
        uname = '%s/%s' % (r.unit['name'], r.variant)
        if r.status == 'undecided':
            undecided.append('%s: %s' % (uname, r.reason))
            continue
        b = r.built
        for a in b.assumptions:
            assumptions.add(a)
        for k, v in b.counts.items():
            norm_counts[k] = norm_counts.get(k, 0) + v
        for it in b.items:
            items[(it['file'], it['name'])] = it
        hits = scan_assumptions(b)
        for k, ls in hits.items():
            assumptions.add('scan: `%s` occurs %d time(s) in generated unit %s' % (k, len(ls), uname))
        # non-definite errors => undecided for the functions they touch
        errs_by_fn = {}
        for e in r.errors:
            errs_by_fn.setdefault(e['fn'], []).append(e)
        # relevant function set: extracted fns + ghost fns tagged with this property
        rel = {name: meta for name, meta in b.fns.items() if _relevant(meta, prop, r.unit['name'], name) and not meta.get('assumed')}
        # baseline: every function recorded as verified on the pinned tree must still be present
        for name in baseline.get(uname, {}).get(prop, []):
            if name not in rel:
                undecided.append('%s: function %s (in the committed baseline) is no longer in the unit' % (uname, name))
        for name, meta in sorted(rel.items()):
            res = r.fn_results.get(name.split('@')[0])
            errs = errs_by_fn.get(name, [])
            if res is None and not errs:
                undecided.append('%s: verus reported nothing for %s' % (uname, name))
                continue
            # failures are decided by the diagnostics (each carries a line inside exactly one function); the per-name
            # solver summary is only used for timing, because several impls may define a method of the same name
            ok = not errs
            if meta.get('expect_fail'):
                # finding obligation: expected to fail on the listed region
                fid = meta['expect_fail']
                listed = [f for f in findings if f.get('id') == fid]
                if ok:
                    # stale finding: the obligation verifies now -> nothing to report
                    fn_rows.append({'unit': uname, 'fn': name, 'status': 'finding-obligation verifies (stale finding)', 'ms': res and res['time_ms']})
                    continue
                if not listed or not witness_manifests(fid):
                    # not a listed finding, or the listed witness no longer fails while the obligation still does:
                    # a different violation in the same region
                    violations.append((r, errs[0] if errs else {'fn': name, 'message': 'failed', 'text': '', 'rendered': '', 'definite': True}))
                    continue
                known_lines.append((fid, listed[0], errs))
                fn_rows.append({'unit': uname, 'fn': name, 'status': 'known-finding obligation fails as listed', 'ms': res and res['time_ms']})
                continue
            obligations += 1
            if ok:
                discharged += 1
                fn_rows.append({'unit': uname, 'fn': name, 'status': 'verified', 'ms': res and res['time_ms'], 'rlimit': res and res['rlimit'],
                                'src': meta.get('file'), 'sha256': meta.get('sha256')})
                continue
            definite = [e for e in errs if e['definite']]
            if definite:
                violations.append((r, definite[0]))
                fn_rows.append({'unit': uname, 'fn': name, 'status': 'FAILED: ' + definite[0]['message']})
            else:
                # resource limit / timeout: under smt.arith.nl=true a *failing* query often diverges instead of failing. Ask once more
                # for this function alone with the other arithmetic setting: a definite failure there is a violation, a proof there
                # is a proof, anything else stays undecided.
                cur = r.unit.get('smt_options', ['smt.arith.nl=true'])
                alt = [] if 'smt.arith.nl=true' in cur else ['smt.arith.nl=true']
                r3 = run_unit(r.unit, r.variant, scratch, rlimit=r.unit.get('rlimit', 60), seed=11 + seed, extra_tag='_alt', only_fn=name, smt_override=alt)
                errs3 = [x for x in r3.errors if x['fn'] == name]
                if r3.status == 'ok' and not errs3:
                    discharged += 1
                    fn_rows.append({'unit': uname, 'fn': name, 'status': 'verified (resource limit under %s, verified under %s)' % (cur or 'linear arithmetic', alt or 'linear arithmetic')})
                    unstable.append('%s::%s hit the resource limit under the unit setting and verified with the other arithmetic setting' % (uname, name))
                elif any(x['definite'] for x in errs3):
                    d3 = [x for x in errs3 if x['definite']][0]
                    violations.append((r3, d3))
                    fn_rows.append({'unit': uname, 'fn': name, 'status': 'FAILED (after a resource limit under the unit setting): ' + d3['message']})
                else:
                    undecided.append('%s: %s: %s' % (uname, name, '; '.join(e['message'] for e in errs) or 'failed without a diagnostic'))
        # errors in functions that carry no property tag but are called by tagged ones (lemmas): attribute to unit
        for fn, errs in errs_by_fn.items():
            if fn in rel:
                continue
            meta = b.fns.get(fn)
            if meta is not None:
                continue  # belongs to another property's check
            # an untagged template lemma failed: this unit cannot be trusted for any property
            if any(e['definite'] for e in errs):
                undecided.append('%s: support lemma %s failed: %s' % (uname, fn, errs[0]['message']))
            else:
                undecided.append('%s: %s: %s' % (uname, fn, errs[0]['message']))
        # vacuity canaries
        for name, meta in b.fns.items():
            if name.startswith('canary_'):
                res = r.fn_results.get(name)
                if res is not None and res['success'] and not errs_by_fn.get(name):
                    canary_ok = False
                    undecided.append('%s: canary %s verified: a precondition is contradictory' % (uname, name))

    # ---------------- retry definite failures once with a larger rlimit / different seed ----------------
    confirmed = []
    for r, e in violations:
        r2 = run_unit(r.unit, r.variant, scratch, rlimit=r.unit.get('rlimit', 60), seed=7 + seed, extra_tag='_retry', only_fn=e['fn'])
        still = [x for x in r2.errors if x['fn'] == e['fn']]
        if r2.status == 'ok' and not still:
            # the very same obligation verifies with more resources and another seed: an unstable proof, not a violation
            unstable.append('%s/%s::%s failed once and verified on retry (unstable proof)' % (r.unit['name'], r.variant, e['fn']))
            discharged += 1
        else:
            # still failing (or inconclusive): a failure has to persist under the other arithmetic setting as well - a proof found under
            # either setting is a proof (overflow obligations on products such as `count * size` need smt.arith.nl, other queries
            # diverge with it)
            cur = r.unit.get('smt_options', ['smt.arith.nl=true'])
            alt = [] if 'smt.arith.nl=true' in cur else ['smt.arith.nl=true']
            r3 = run_unit(r.unit, r.variant, scratch, rlimit=r.unit.get('rlimit', 60), seed=13 + seed, extra_tag='_alt2', only_fn=e['fn'], smt_override=alt)
            still3 = [x for x in r3.errors if x['fn'] == e['fn']]
            if r3.status == 'ok' and not still3:
                discharged += 1
                unstable.append('%s/%s::%s fails under %s and verifies under %s (a proof exists: not a violation)' % (
                    r.unit['name'], r.variant, e['fn'], cur or 'linear arithmetic', alt or 'linear arithmetic'))
            elif any(x['definite'] for x in still):
                confirmed.append((r, [x for x in still if x['definite']][0]))
            else:
                # the retry was inconclusive (timeout / rlimit): the definite failure of the first run stands
                confirmed.append((r, e))

    # ---------------- thorough: extra seeds for stability ----------------
    stab = []
    if tier == 'thorough' and not confirmed and not undecided:
        for sd in seeds[1:]:
            with cf.ThreadPoolExecutor(max_workers=min(8, len(jobs))) as ex:
                futs = [ex.submit(run_unit, u, v, scratch, None, sd, '_s%d' % sd) for (u, v) in jobs]
                for f in futs:
                    rr = f.result()
                    bad = [e for e in rr.errors if e['fn'] in rr.built.fns and _relevant(rr.built.fns[e['fn']], prop, rr.unit['name'], e['fn']) and not rr.built.fns[e['fn']].get('expect_fail')] if rr.built else []
                    stab.append({'unit': rr.unit['name'], 'variant': rr.variant, 'seed': sd, 'status': rr.status, 'failed': [e['fn'] for e in bad]})
                    if bad:
                        unstable.append('%s/%s seed %d: %s' % (rr.unit['name'], rr.variant, sd, bad[0]['fn']))

    # ---------------- counterexample search + replay for confirmed violations ----------------
    out_lines = []
    nviol = 0
    os.makedirs(os.path.join(VERIF, 'replays'), exist_ok=True)
    for r, e in confirmed:
        nviol += 1
        oname = obligation_name(r.unit['name'], r.variant, e)
        rp = os.path.join(VERIF, 'replays', '%s-%s%s-%s.json' % (prop, r.unit['name'], r.variant, re.sub(r'\W+', '_', e['fn'] or 'x')))
        rec = {'property': prop, 'obligation': oname, 'function': e['fn'], 'unit': r.unit['name'], 'variant': r.variant,
               'source': r.built.fns.get(e['fn'], {}).get('file'), 'verus_message': e['message'], 'failed_clause': e['text'],
               'verus_output': e['rendered'], 'verus_cmd': r.cmd, 'inputs': None}
        ce = None
        try:
            import cesearch
            ce = cesearch.search(prop, r, e, scratch, tier)
        except Exception as ex:  # CE search is best effort; never turns into an alarm or hides one
            rec['ce_search_error'] = repr(ex)
        if ce:
            rec.update(ce)
        has_input = bool(ce and ce.get('inputs') is not None)
        props_f = r.built.fns.get(e['fn'], {}).get('props') or []
        own = prop in props_f
        # which of the properties sharing this contract does the failed obligation speak about? A postcondition / invariant is about
        # the value (and, for C15, possibly about Ok-or-Err); a precondition, overflow, bounds or assertion failure is about not
        # panicking. C19 is purely "never a crash", C15 is validation (status, error content, no panic), the others are value properties.
        value_kind = e['message'].startswith('postcondition not satisfied') or 'invariant' in e['message']
        siblings = [x for x in props_f if x != prop]
        # the first tag is the property the contract states directly (C19 never is: it is about the absence of panics)
        primary = next((x for x in props_f if x != 'C19'), None)
        if not siblings:
            shared = False
        elif value_kind:
            shared = own and prop != primary
        else:
            # a panic-kind obligation speaks for C19 / C15 (if tagged) and for the primary property
            shared = own and not (prop in ('C19', 'C15') or prop == primary)
        if shared and not has_input:
            # The function's contract carries several properties at once (value and validation of a setter: C09 and C15; offset
            # and crash-freedom of a lookup: C18 and C19). The battery of this property looks only at what this property is about
            # (cesearch `project`): without a concrete difference there, the failing contract belongs to the sibling property.
            rec['verdict'] = 'undecided: contract shared by %s fails, no failing input for %s found' % (','.join(props_f), prop)
            with open(rp, 'w') as f:
                json.dump(rec, f, indent=1)
            nviol -= 1
            undecided.append('%s/%s: %s fails its contract (%s), which also carries %s; no failing input for %s found (see %s)' % (
                r.unit['name'], r.variant, e['fn'], e['message'], ','.join(x for x in props_f if x != prop), prop, rp))
            continue
        if not own and not has_input:
            # The failing function is a *dependency* of this property (reached through the call graph, its contract does not state
            # the property itself) and this property's own battery shows no behavioural difference: the property is no longer
            # proved, but nothing shows it broken. Undecided, not an alarm; the property the function is tagged with reports it.
            rec['verdict'] = 'undecided: dependency of %s fails its contract, no failing input for %s found' % (prop, prop)
            with open(rp, 'w') as f:
                json.dump(rec, f, indent=1)
            nviol -= 1
            undecided.append('%s/%s: dependency %s no longer meets its contract (%s); no failing input for %s found (see %s)' % (
                r.unit['name'], r.variant, e['fn'], e['message'], prop, rp))
            continue
        with open(rp, 'w') as f:
            json.dump(rec, f, indent=1)
        if has_input:
            out_lines.append('VIOLATION property=%s replay=%s' % (prop, rp))
        else:
            out_lines.append('VIOLATION property=%s replay=%s no-failing-input-found' % (prop, rp))
        samples.append({'failed_obligation': oname})

    seen_f = set()
    for fid, listed, errs in known_lines:
        if fid in seen_f:
            continue
        seen_f.add(fid)
        out_lines.append('KNOWN-FINDING: property=%s %s' % (prop, listed.get('line', '').split(' ', 2)[-1]))

    structural = []
    if prop == 'C19':
        for label, fnname, (verdict, msg) in (('from_tzif returns only validated data', 'TimeZone::from_tzif', structural_c19()),
                                              ('Offset::resolve cannot abort on bad zone data', 'Offset::resolve', structural_resolve())):
            structural.append({'check': label + ' (syntactic check of the source text, not a proof)', 'verdict': verdict, 'detail': msg})
            if verdict == 'violation':
                nviol += 1
                rp = os.path.join(VERIF, 'replays', 'C19-structural-%s.json' % fnname.split('::')[-1])
                rec = {'property': 'C19', 'obligation': 'structural: ' + label, 'function': fnname, 'unit': 'tz', 'variant': 'A', 'verus_output': msg, 'inputs': None}
                if fnname.endswith('from_tzif'):
                    try:
                        import cesearch
                        ce = cesearch.search(prop, None, None, scratch, tier)
                        if ce:
                            rec.update(ce)
                    except Exception as ex:
                        rec['ce_search_error'] = repr(ex)
                json.dump(rec, open(rp, 'w'), indent=1)
                out_lines.append('VIOLATION property=C19 replay=%s%s' % (rp, '' if rec.get('inputs') else ' no-failing-input-found'))
            elif verdict == 'undecided':
                undecided.append('structural: ' + msg)
    # Kani stand-ins (started at the beginning of the check, joined here)
    for st, fut in kani_futs:
        try:
            verdict, msg, play = fut.result()
        except Exception as ex:
            verdict, msg, play = 'undecided', 'kani driver error %r' % (ex,), None
        structural.append({'check': st['label'], 'kind': st['kind'], 'harness': st['harness'], 'verdict': verdict, 'detail': msg})
        if verdict == 'violation':
            nviol += 1
            rp = os.path.join(VERIF, 'replays', '%s-kani-%s.json' % (prop, st['harness']))
            rec = {'property': prop, 'obligation': 'kani harness %s (%s)' % (st['harness'], st['kind']), 'function': st['function'], 'verus_output': msg, 'inputs': play}
            if not play:
                try:
                    import cesearch
                    ce = cesearch.search(prop, None, None, scratch, tier)
                    if ce:
                        rec.update(ce)
                except Exception as ex:
                    rec['ce_search_error'] = repr(ex)
            json.dump(rec, open(rp, 'w'), indent=1)
            out_lines.append('VIOLATION property=%s replay=%s%s' % (prop, rp, '' if rec.get('inputs') else ' no-failing-input-found'))
        elif verdict == 'undecided':
            undecided.append('kani %s: %s' % (st['harness'], msg))

    closure = audit_fut.result()
    for m in closure.get('assumed_but_proved_nowhere', []):
        assumptions.add('UNPROVED assumed contract: %s (assumed in %s)' % (m['function'], m['assumed_in']))
    if closure.get('error'):
        assumptions.add('modular-closure audit could not run: ' + closure['error'])
    # ---------------- evidence ----------------
    wall = time.time() - t0
    for row in fn_rows[:6]:
        samples.append(row)
    ev = {
        'property_id': prop, 'tier': tier, 'seed': seed, 'level': 'proof',
        'coverage': {
            'obligations': obligations, 'discharged': discharged,
            'checker_cmd': '; '.join(sorted(set(r.cmd for r in runs if r.cmd)))[:4000],
            'trusted_base': sorted(assumptions),
            'samples': samples or [{'note': 'no function results'}],
            'explanation': 'obligation = one function-level verification condition (all requires/ensures/invariants/overflow/'
                           'bounds checks of one real function or lemma) generated from /repo working-tree text; discharged = accepted by Verus(Z3)',
            'functions': fn_rows,
            'back_end': 'verus 0.2026.09.13 -> z3',
            'normalisations': norm_counts,
            'extracted_items': sorted(items.values(), key=lambda x: (x['file'], x['name'])),
            'undecided': undecided, 'unstable': unstable, 'stability_runs': stab,
            'known_findings_printed': [l for l in out_lines if l.startswith('KNOWN-FINDING')],
            'structural_checks': structural,
            'modular_closure': closure,
            'solver_ms_total': sum((row.get('ms') or 0) for row in fn_rows),
        },
        'assumptions': sorted(assumptions),
        'wall_s': round(wall, 2),
        'violations': nviol,
    }
    os.makedirs(os.path.join(VERIF, 'evidence'), exist_ok=True)
    with open(os.path.join(VERIF, 'evidence', prop + '.json'), 'w') as f:
        json.dump(ev, f, indent=1)

    for l in out_lines:
        print(l)
    if nviol:
        return 1
    if undecided:
        for u in undecided:
            print('UNDECIDED property=%s %s' % (prop, u))
        return 2
    if unstable and tier == 'thorough':
        for u in unstable:
            print('UNSTABLE property=%s %s' % (prop, u))
    print('OK property=%s obligations=%d discharged=%d wall=%.1fs' % (prop, obligations, discharged, wall))
    return 0


_WITNESS = {}


def witness_manifests(fid):
    """Replays the listed witness of a known finding against the real crate (replay crate, public API)."""
    if fid in _WITNESS:
        return _WITNESS[fid]
    d = os.path.join(VERIF, 'replay')
    try:
        subprocess.run(['cargo', 'build', '--offline', '-q'], cwd=d, env=dict(os.environ, CARGO_NET_OFFLINE='true'),
                       capture_output=True, text=True, timeout=600)
        p = subprocess.run([os.path.join(d, 'target', 'debug', 'astrolabe-verif-replay'), 'witness', fid],
                           capture_output=True, text=True, timeout=120)
        _WITNESS[fid] = p.stdout.strip().startswith('MANIFESTS')
    except Exception:
        _WITNESS[fid] = False
    return _WITNESS[fid]


def structural_c19():
    """from_tzif is outside Verus (iterator adapters, byte conversions). What C19 needs from it besides panic-freedom is
    that every value it returns went through validate(): checked on the source text. Returns (verdict, message):
    'ok' | 'violation' (no validate call at all) | 'undecided' (present, but not in the shape `x.validate()?; Ok(x)`)."""
    sys.path.insert(0, HERE)
    import rustscan as rs
    p = os.path.join(REPO, 'src', 'local', 'timezone.rs')
    try:
        text = open(p).read()
        items = rs.scan_items(text)
        impl = [it for it in items if it.kind == 'impl' and it.name == 'impl TimeZone'][0]
        fn = [it for it in rs.scan_items(text, impl.body_open + 1, impl.end - 1) if it.kind == 'fn' and it.name == 'from_tzif'][0]
    except Exception as e:
        return 'undecided', 'from_tzif not found (%s)' % e
    body = text[fn.body_open:fn.end]
    code = re.sub(r'//[^\n]*', '', body)
    if not re.search(r'\.validate\(\)', code):
        return 'violation', 'TimeZone::from_tzif no longer calls validate(): parsed data reaches lookups unchecked'
    oks = re.findall(r'\bOk\(\s*(\w+)\s*\)', code)
    m = re.search(r'(\w+)\.validate\(\)\?;\s*Ok\(\s*(\w+)\s*\)\s*\}\s*$', code.strip())
    if m and m.group(1) == m.group(2) and len(oks) == 1 and 'return Ok' not in code:
        return 'ok', 'from_tzif has a single Ok exit, `%s.validate()?; Ok(%s)`' % (m.group(1), m.group(2))
    return 'undecided', 'from_tzif calls validate() but not as the only exit `x.validate()?; Ok(x)`'


def structural_resolve():
    """Offset::resolve is outside Verus (cfg(unix), fs::read). C19 asks that a damaged /etc/localtime cannot abort the
    program: on the source text, resolve() must not unwrap/expect/panic."""
    import rustscan as rs
    p = os.path.join(REPO, 'src', 'offset.rs')
    try:
        text = open(p).read()
        items = rs.scan_items(text)
        impl = [it for it in items if it.kind == 'impl' and it.name == 'impl Offset'][0]
        fn = [it for it in rs.scan_items(text, impl.body_open + 1, impl.end - 1) if it.kind == 'fn' and it.name == 'resolve'][0]
    except Exception as e:
        return 'undecided', 'Offset::resolve not found (%s)' % e
    code = re.sub(r'//[^\n]*', '', text[fn.body_open:fn.end])
    bad = re.findall(r'\.unwrap\(\)|\.expect\(|panic!|unreachable!|\.unwrap_unchecked', code)
    if bad:
        return 'violation', 'Offset::resolve contains %s: an unreadable or invalid /etc/localtime would abort the program' % ', '.join(sorted(set(bad)))
    return 'ok', 'Offset::resolve contains no unwrap/expect/panic'


def _load_baseline():
    p = os.path.join(VERIF, 'contracts', 'baseline_obligations.json')
    if os.path.exists(p):
        return json.load(open(p))
    return {}


def write_baseline():
    """Records, per unit/variant and property, the functions that verify on the current tree."""
    units = load_units()
    scratch = os.path.join(SCRATCH_ROOT, 'baseline-%d' % os.getpid())
    os.makedirs(scratch, exist_ok=True)
    out = {}
    try:
        for u in units:
            for v in u.get('variants', ['A']):
                r = run_unit(u, v, scratch)
                key = '%s/%s' % (u['name'], v)
                if r.built is None:
                    print('baseline: %s undecided: %s' % (key, r.reason))
                    continue
                out[key] = {}
                failing = set(e['fn'] for e in r.errors)
                for name, meta in r.built.fns.items():
                    if meta.get('expect_fail') or name.startswith('canary_'):
                        continue
                    if name in failing:
                        print('baseline: %s::%s FAILS' % (key, name))
                        continue
                    for p in meta.get('props', []):
                        out[key].setdefault(p, []).append(name)
                for p in out[key]:
                    out[key][p].sort()
    finally:
        shutil.rmtree(scratch, ignore_errors=True)
    with open(os.path.join(VERIF, 'contracts', 'baseline_obligations.json'), 'w') as f:
        json.dump(out, f, indent=1, sort_keys=True)
    print('baseline written')


def main(argv):
    import argparse
    ap = argparse.ArgumentParser()
    ap.add_argument('prop', nargs='?')
    ap.add_argument('--tier', default=os.environ.get('VERIF_TIER', 'quick'))
    ap.add_argument('--replay')
    ap.add_argument('--write-baseline', action='store_true')
    ap.add_argument('--keep', action='store_true')
    ap.add_argument('--selftest', action='store_true')
    a = ap.parse_args(argv)
    seed = int(os.environ.get('VERIF_SEED', '0') or 0)
    if a.write_baseline:
        write_baseline()
        return 0
    if a.replay:
        import replay
        return replay.replay(a.replay)
    if a.selftest:
        import selftest
        return selftest.run(a.prop)
    if not a.prop:
        ap.error('property id required')
    if a.prop == 'C11':
        # two engines: the Verus unit `fmt` (text of the zone symbols, sign/padding glue, default-width rule) and the Kani rows
        import kani_engine
        rc_v = check_property('C11', a.tier, seed, a.keep)
        if os.environ.get('VERIF_C11_VERUS_ONLY'):
            # self-test / cross-matrix runs: only the Verus part (the rows take 2-3 minutes per run); never used by the registered commands
            return rc_v
        evp = os.path.join(VERIF, 'evidence', 'C11.json')
        ev_v = json.load(open(evp)) if os.path.exists(evp) else None
        rc_k = kani_engine.run('C11', a.tier, seed)
        if ev_v and os.path.exists(evp):
            ev_k = json.load(open(evp))
            # merged record, level proof: obligations = Verus function-level obligations + Kani rows (each row is one complete,
            # loop-free harness decided by CBMC); the two engines' own records are kept under verus_part / kani_rows
            ev = ev_v
            ck = ev_k['coverage']
            cv = ev['coverage']
            cv['verus_part'] = {'obligations': cv.get('obligations', 0), 'discharged': cv.get('discharged', 0)}
            cv['kani_rows'] = ck
            cv['obligations'] = cv.get('obligations', 0) + ck.get('evaluations', 0)
            cv['discharged'] = cv.get('discharged', 0) + ck.get('distinct_nontrivial', 0)
            cv['checker_cmd'] = (cv.get('checker_cmd', '') + '; cargo kani -Z stubbing --harness <row> (one per row, in scratch copies of /repo)')[:4000]
            cv['explanation'] = (cv.get('explanation', '') + ' Plus one obligation per Kani row: ' + ck.get('explanation', ''))
            cv['trusted_base'] = sorted(set(cv.get('trusted_base', [])) | set(ev_k.get('assumptions', [])))
            cv['samples'] = (cv.get('samples') or []) + (ck.get('samples') or [])[:4]
            ev['assumptions'] = sorted(set(ev.get('assumptions', [])) | set(ev_k.get('assumptions', [])))
            ev['violations'] = ev.get('violations', 0) + ev_k.get('violations', 0)
            ev['wall_s'] = round(ev.get('wall_s', 0) + ev_k.get('wall_s', 0), 2)
            ev['level'] = 'proof'
            json.dump(ev, open(evp, 'w'), indent=1)
        return 1 if 1 in (rc_v, rc_k) else (2 if 2 in (rc_v, rc_k) else 0)
    rc = check_property(a.prop, a.tier, seed, a.keep)
    if rc == 0 and a.tier == 'thorough' and not os.environ.get('VERIF_REPO'):
        # thorough: also replay the seeded changes of this property against a scratch copy (self-test of the contracts);
        # the outcome is recorded in the evidence and printed, it does not change the verdict on the tree
        import io
        import contextlib
        import selftest
        buf = io.StringIO()
        evp = os.path.join(VERIF, 'evidence', a.prop + '.json')
        ev_txt = open(evp).read()
        with contextlib.redirect_stdout(buf):
            st = selftest.run(a.prop)
        ev = json.loads(ev_txt)
        ev['coverage']['selftest'] = [l for l in buf.getvalue().split('\n') if l.startswith('selftest')]
        json.dump(ev, open(evp, 'w'), indent=1)
        print('SELFTEST property=%s %s' % (a.prop, 'all seeded changes give the recorded verdict, harmless edits raise no alarm' if st == 0 else 'UNEXPECTED RESULTS (see evidence.coverage.selftest)'))
    return rc


if __name__ == '__main__':
    sys.exit(main(sys.argv[1:]))
