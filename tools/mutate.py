#!/usr/bin/env python3
"""Mutation probe of the contracts: generates small operator/constant mutants of the functions under contract, keeps those that
still compile AND pass the repository's own test suite (the kind of change the checks exist for), and runs the checks of the
properties that depend on the mutated file. A mutant on which every check exits 0 is either equivalent or shows a weak contract;
the list is for manual review (DESIGN §7). Works on clones of /repo HEAD only.

usage: mutate.py [--per-file N] [--workers K] [--seed S] [--files f1,f2,..]"""
import sys, os, re, json, random, subprocess, shutil, argparse, concurrent.futures as cf

VERIF = os.path.dirname(os.path.dirname(os.path.abspath(__file__)))
sys.path.insert(0, os.path.join(VERIF, 'tools'))
import rustscan as rs

FILE_PROPS = {
    'src/util/leap.rs': ['C01'],
    'src/util/date/convert.rs': ['C01', 'C02', 'C07', 'C18'],
    'src/util/date/validate.rs': ['C01', 'C15'],
    'src/util/date/manipulate.rs': ['C04', 'C05', 'C09'],
    'src/util/time/convert.rs': ['C03', 'C06'],
    'src/util/time/validate.rs': ['C15'],
    'src/util/time/manipulate.rs': ['C04', 'C09'],
    'src/util/offset.rs': ['C10', 'C09'],
    'src/offset.rs': ['C10', 'C15', 'C19'],
    'src/util/format.rs': ['C11'],
    'src/local/timezone.rs': ['C18', 'C19'],
    'src/local/transition_rule.rs': ['C18', 'C19'],
    'src/local/cursor.rs': ['C19'],
    'src/local/data_block.rs': ['C19'],
    'src/cron.rs': ['C17'],
    'src/time.rs': ['C08', 'C09', 'C06'],
    'src/date.rs': ['C04', 'C05', 'C06', 'C09'],
    'src/datetime.rs': ['C03', 'C04', 'C06', 'C09', 'C10'],
}

OPS = [
    (r'<=', '<'), (r'>=', '>'), (r'(?<![<>=!-])<(?![<=])', '<='), (r'(?<![<>=!-])>(?![>=])', '>='),
    (r'==', '!='), (r'!=', '=='), (r'&&', '||'), (r'\|\|', '&&'),
    (r' \+ ', ' - '), (r' - ', ' + '), (r' % ', ' / '), (r' / ', ' % '), (r' \* ', ' / '),
]
NUM = re.compile(r'(?<![\w.])(\d[\d_]*)(?![\w.])')


def code_spans(text):
    """(start, end) of code chunks outside comments/strings/chars and outside #[cfg(test)] modules and doc examples."""
    cut = text.find('#[cfg(test)]\nmod ')
    end = len(text) if cut < 0 else cut
    i = 0
    while i < end:
        kind, a, b = rs.next_code(text, i)
        if kind == 'code':
            yield (i, i + 1)
            i += 1
        else:
            i = b


def candidates(text, rng, limit):
    """list of (pos, old, new, desc) single-token mutations inside fn bodies."""
    cut = text.find('#[cfg(test)]\nmod ')
    end = len(text) if cut < 0 else cut
    # mask non-code characters
    mask = [False] * len(text)
    i = 0
    while i < end:
        kind, a, b = rs.next_code(text, i)
        if kind == 'code':
            mask[i] = True
            i += 1
        elif kind == 'ws':
            for t in range(a, b):
                mask[t] = True
            i = b
        else:
            i = b
    # only inside fn bodies (skip signatures, use lines, consts)
    body = [False] * len(text)
    for m in re.finditer(r'\bfn\s+\w+', text[:end]):
        j = text.find('{', m.end())
        semi = text.find(';', m.end())
        if j < 0 or (0 <= semi < j):
            continue
        try:
            k = rs.match_close(text, j)
        except Exception:
            continue
        for t in range(j, min(k, end)):
            body[t] = True
    out = []
    for pat, new in OPS:
        for m in re.finditer(pat, text[:end]):
            if all(mask[m.start():m.end()]) and all(body[m.start():m.end()]):
                # skip generics / arrows / closures / lifetimes
                ctx = text[max(0, m.start() - 2):m.end() + 2]
                if '->' in ctx or '=>' in ctx or '::<' in text[max(0, m.start() - 3):m.start() + 1]:
                    continue
                out.append((m.start(), m.group(0), new, 'operator %r -> %r' % (m.group(0).strip(), new.strip())))
    for m in NUM.finditer(text[:end]):
        if all(mask[m.start():m.end()]) and all(body[m.start():m.end()]):
            v = int(m.group(1).replace('_', ''))
            if v > 100000 and v not in (86400,):
                continue
            out.append((m.start(), m.group(1), str(v + 1), 'constant %d -> %d' % (v, v + 1)))
            if v > 0:
                out.append((m.start(), m.group(1), str(v - 1), 'constant %d -> %d' % (v, v - 1)))
    rng.shuffle(out)
    return out[:limit]


def work(job):
    wid, rel, pos, old, new, desc, root = job
    clone = os.path.join(root, 'w%d' % wid, 'repo')
    if not os.path.isdir(os.path.join(clone, '.git')):
        os.makedirs(os.path.dirname(clone), exist_ok=True)
        subprocess.run(['git', 'clone', '-q', '--no-hardlinks', '/repo', clone], check=True)
    subprocess.run(['git', 'checkout', '-q', '--', '.'], cwd=clone)
    p = os.path.join(clone, rel)
    text = open(p).read()
    if text[pos:pos + len(old)] != old:
        return None
    open(p, 'w').write(text[:pos] + new + text[pos + len(old):])
    line = text.count('\n', 0, pos) + 1
    env = dict(os.environ, CARGO_NET_OFFLINE='true')
    try:
        t = subprocess.run(['timeout', '-k', '5', '240', 'cargo', 'test', '--offline', '--lib', '--tests', '-q'], cwd=clone, env=env, capture_output=True, text=True)
    except Exception:
        t = None
    subprocess.run(['pkill', '-f', os.path.join(clone, 'target', 'debug', 'deps')], capture_output=True)
    if t is None or t.returncode != 0:
        return {'file': rel, 'line': line, 'mutation': desc, 'suite': 'fails or does not compile'}
    res = {}
    for prop in FILE_PROPS[rel]:
        r = subprocess.run([os.path.join(VERIF, 'check'), prop, '--tier', 'quick'], env=dict(os.environ, VERIF_REPO=clone, VERIF_C11_VERUS_ONLY='1'), capture_output=True, text=True)
        res[prop] = r.returncode
        if r.returncode == 1:
            break
    src_line = text.split('\n')[line - 1].strip()
    return {'file': rel, 'line': line, 'mutation': desc, 'source': src_line[:140], 'suite': 'passes', 'checks': res,
            'verdict': 'detected' if 1 in res.values() else ('undecided' if 2 in res.values() else 'SURVIVED')}


def main():
    ap = argparse.ArgumentParser()
    ap.add_argument('--per-file', type=int, default=8)
    ap.add_argument('--workers', type=int, default=3)
    ap.add_argument('--seed', type=int, default=1)
    ap.add_argument('--files', default='')
    a = ap.parse_args()
    rng = random.Random(a.seed)
    root = os.path.join(os.environ.get('VERIF_SCRATCH', '/root/.cache/astrolabe-verif'), 'mutate-%d' % os.getpid())
    files = [f for f in a.files.split(',') if f] or sorted(FILE_PROPS)
    jobs = []
    for rel in files:
        text = open(os.path.join('/repo', rel)).read()
        for (pos, old, new, desc) in candidates(text, rng, a.per_file):
            jobs.append([0, rel, pos, old, new, desc, root])
    for n, j in enumerate(jobs):
        j[0] = n % a.workers
    print('mutate: %d mutants over %d files' % (len(jobs), len(files)), flush=True)
    # one queue per worker so that a clone is never used by two jobs at once
    def run_worker(w):
        out = []
        for j in jobs:
            if j[0] == w:
                r = work(tuple(j))
                if r:
                    print('mutant ' + json.dumps(r), flush=True)
                    out.append(r)
        return out
    allr = []
    try:
        with cf.ThreadPoolExecutor(max_workers=a.workers) as ex:
            for lst in ex.map(run_worker, range(a.workers)):
                allr += lst
    finally:
        shutil.rmtree(root, ignore_errors=True)
    kept = [r for r in allr if r.get('suite') == 'passes']
    print('mutate: %d mutants, %d pass the suite: %d detected, %d undecided, %d survived' % (
        len(allr), len(kept), sum(r['verdict'] == 'detected' for r in kept), sum(r['verdict'] == 'undecided' for r in kept), sum(r['verdict'] == 'SURVIVED' for r in kept)), flush=True)


if __name__ == '__main__':
    main()
