#!/usr/bin/env python3
"""./check --selftest [ID]: applies every seeded change under /verif/seeded (whose meta says it is detected) to a scratch
copy of /repo and requires a VIOLATION; requires exit 0 on the unchanged copy; and applies harmless edits that must never
produce a VIOLATION (exit 0 or 2). Never touches /repo."""
import glob
import json
import os
import re
import shutil
import subprocess
import sys

HERE = os.path.dirname(os.path.abspath(__file__))
VERIF = os.path.dirname(HERE)

HARMLESS = [
    # (property, file, old text, new text, description) - literal replacement, each an equivalent rewrite
    ('C01', 'src/util/leap.rs', 'year_abs', 'abs_year', 'rename a local in leap_years'),
    ('C04', 'src/util/time/manipulate.rs', 'hours_as_nanos', 'nanos_of_hours', 'rename a local in add_hours/sub_hours'),
    ('C10', 'src/util/time/convert.rs', 'let minute = as_seconds / SECS_PER_MINUTE % SECS_PER_MINUTE;', 'let minute = as_seconds % SECS_PER_HOUR / SECS_PER_MINUTE;', 'minute as (s % 3600) / 60 in nanos_to_time'),
    ('C02', 'src/util/date/convert.rs', '(days.rem_euclid(7) as u32 + if monday_first { 0 } else { 1 }) % 7', '((days.rem_euclid(7) + if monday_first { 0 } else { 1 }) % 7) as u32', 'cast after the modulo in days_to_wday'),
    ('C01', 'src/util/leap.rs', 'year % 4 == 0 && (year % 100 != 0 || year % 400 == 0)', '(year % 4 == 0 && year % 100 != 0) || year % 400 == 0', 'regrouped leap rule'),
    ('C10', 'src/util/offset.rs', """    (((nanoseconds as i64 + offset as i64 * NANOS_PER_SEC as i64) + NANOS_PER_DAY as i64)
        % NANOS_PER_DAY as i64)
        .unsigned_abs()""", '    (nanoseconds as i64 + offset as i64 * NANOS_PER_SEC as i64).rem_euclid(NANOS_PER_DAY as i64) as u64', 'rem_euclid in add_offset_to_nanos'),
    ('C05', 'src/util/date/manipulate.rs', 'let target_month = total_months.rem_euclid(12) as u32 + 1;', 'let target_month = (total_months - target_continuous_year * 12) as u32 + 1;', 'month as total - 12*year in shift_months'),
    ('C04', 'src/util/date/manipulate.rs', 'i32::try_from(old_days as i64 + days as i64).map_err(', 'i32::try_from(days as i64 + old_days as i64).map_err(', 'commuted sum in add_days'),
    ('C06', 'src/datetime.rs', """        let extra_day = if self.days > compare.days && self.nanoseconds < compare.nanoseconds {
            -1
        } else if self.days < compare.days && self.nanoseconds > compare.nanoseconds {
            1
        } else {
            0
        };

        self.days as i64 - compare.days as i64 + extra_day""", """        let mut result = self.days as i64 - compare.days as i64;
        if self.days > compare.days && self.nanoseconds < compare.nanoseconds {
            result -= 1;
        } else if self.days < compare.days && self.nanoseconds > compare.nanoseconds {
            result += 1;
        }
        result""", 'imperative form of days_since'),
    ('C01', 'src/util/date/convert.rs', '    let mday = remdays + 1;', '    let mday = 1 + remdays;', 'commuted sum in days_to_date'),
    ('C08', 'src/time.rs', '// ########################################\n//\n//  TimeUtility trait implementation', '// (comment edited)\n// ########################################\n//\n//  TimeUtility trait implementation', 'edit a comment'),
]


def run_check(prop, repo):
    env = dict(os.environ, VERIF_REPO=repo)
    p = subprocess.run([os.path.join(VERIF, 'check'), prop, '--tier', 'quick'], env=env, capture_output=True, text=True)
    return p.returncode, p.stdout


def run(only=None):
    root = os.path.join(os.environ.get('VERIF_SCRATCH', '/root/.cache/astrolabe-verif'), 'selftest-%d' % os.getpid())
    copy = os.path.join(root, 'repo')
    os.makedirs(root, exist_ok=True)
    bad = 0
    saved = {}
    for f in glob.glob(os.path.join(VERIF, 'evidence', '*.json')):
        saved[f] = open(f).read()
    try:
        def fresh():
            # a clone of /repo's HEAD: independent of whatever is being tried in /repo's working tree meanwhile
            if not os.path.isdir(os.path.join(copy, '.git')):
                shutil.rmtree(copy, ignore_errors=True)
                subprocess.run(['git', 'clone', '-q', '--no-hardlinks', '/repo', copy], check=True)
            subprocess.run(['git', 'checkout', '-q', '--', '.'], cwd=copy)
            subprocess.run(['git', 'clean', '-fdq', '-e', 'target'], cwd=copy)
        seeds = sorted(glob.glob(os.path.join(VERIF, 'seeded', '*', 'meta.json')))
        props = sorted(set(json.load(open(m))['property'] for m in seeds if json.load(open(m)).get('property')))
        if only:
            props = [p for p in props if p == only]
        for prop in props:
            if prop == 'C11' and not os.environ.get('SELFTEST_KANI'):
                # the Kani rows take 2-3 minutes per run: the self-test exercises the Verus part of C11 only (SELFTEST_KANI=1 runs both)
                os.environ['VERIF_C11_VERUS_ONLY'] = '1'
                print('selftest %s: Verus part only (set SELFTEST_KANI=1 for the rows as well)' % prop)
            fresh()
            rc, out = run_check(prop, copy)
            print('selftest %s unchanged copy: exit %d' % (prop, rc))
            if rc != 0:
                bad += 1
        for m in seeds:
            meta = json.load(open(m))
            if meta.get('harmless'):
                # behaviour-preserving refactoring: no check that depends on the file may raise an alarm
                f = meta.get('file') or ''
                deps = (['C11'] if f == 'src/util/format.rs' else
                        ['C01', 'C02', 'C05', 'C07'] if f.startswith('src/util/date') or f.endswith('leap.rs') else
                        ['C03', 'C06', 'C09'] if f.startswith('src/util/time') else
                        ['C10', 'C15'] if f.endswith('offset.rs') else
                        ['C03', 'C04'] if f == 'src/date.rs' else
                        ['C03', 'C06', 'C10'] if f == 'src/datetime.rs' else
                        ['C08'] if f == 'src/time.rs' else
                        ['C17'] if f == 'src/cron.rs' else ['C18', 'C19'])
                if only:
                    deps = [p for p in deps if p == only]
                for prop in deps:
                    fresh()
                    a = subprocess.run(['git', 'apply', os.path.join(os.path.dirname(m), 'patch.diff')], cwd=copy, capture_output=True, text=True)
                    if a.returncode != 0:
                        print('selftest %s: patch no longer applies' % meta['id'])
                        break
                    rc, out = run_check(prop, copy)
                    ok = rc in (0, 2)
                    print('selftest harmless %s (%s, %s): exit %d -> %s' % (meta['id'], meta.get('function'), prop, rc, 'ok' if ok else 'FALSE ALARM'))
                    if not ok:
                        bad += 1
                continue
            if only and meta['property'] != only:
                continue
            fresh()
            a = subprocess.run(['git', 'apply', os.path.join(os.path.dirname(m), 'patch.diff')], cwd=copy, capture_output=True, text=True)
            if a.returncode != 0:
                print('selftest %s: patch no longer applies (%s)' % (meta['id'], a.stderr.strip()[:80]))
                continue
            rc, out = run_check(meta['property'], copy)
            want = 1 if meta.get('check_exit') == 1 else 0
            ok = (rc == want) if want == 1 else (rc in (0, 2))
            vl = [l for l in out.split('\n') if l.startswith('VIOLATION')]
            ce = 'with a concrete failing input' if vl and any('no-failing-input-found' not in l for l in vl) else ('no-failing-input-found' if vl else '')
            print('selftest %s (%s): exit %d, expected %s -> %s %s' % (meta['id'], meta['property'], rc, 'VIOLATION' if want else 'documented miss', 'ok' if ok else 'UNEXPECTED', ce))
            if not ok:
                bad += 1
        for prop, rel, pat, rep, desc in HARMLESS:
            if only and prop != only:
                continue
            fresh()
            p = os.path.join(copy, rel)
            s = open(p).read()
            k = s.count(pat)
            s2 = s.replace(pat, rep)
            if not k:
                print('selftest harmless edit (%s): pattern not found, skipped' % desc)
                continue
            open(p, 'w').write(s2)
            rc, out = run_check(prop, copy)
            ok = rc in (0, 2)
            print('selftest harmless edit %s (%s): exit %d -> %s' % (prop, desc, rc, 'ok' if ok else 'FALSE ALARM'))
            if not ok:
                bad += 1
    finally:
        shutil.rmtree(root, ignore_errors=True)
        for f, txt in saved.items():
            open(f, 'w').write(txt)
    print('selftest: %d unexpected result(s)' % bad)
    return 1 if bad else 0
