#!/usr/bin/env python3
"""./check --selftest [ID]: applies every seeded change under /verif/seeded (whose meta says it is detected) to a scratch
copy of /repo and requires a VIOLATION; requires exit 0 on the unchanged copy; and applies harmless edits that must never
produce a VIOLATION (exit 0 or 2). Never touches /repo."""
import glob
import json
import os
import re
import shutil
import subprocess
import sys

HERE = os.path.dirname(os.path.abspath(__file__))
VERIF = os.path.dirname(HERE)

HARMLESS = [
    # (property, file, regex, replacement, description)
    ('C01', 'src/util/leap.rs', r'\byear_abs\b', 'abs_year', 'rename a local in leap_years'),
    ('C04', 'src/util/time/manipulate.rs', r'\bhours_as_nanos\b', 'nanos_of_hours', 'rename a local in add_hours/sub_hours'),
    ('C06', 'src/util/time/convert.rs', r'let \(subday_hours, subhour_minutes, _\) = nanos_to_time\(nanos\);\n    days as i64 \* 24 \* 60 \+ subday_hours as i64 \* 60 \+ subhour_minutes as i64',
     'let (subday_hours, subhour_minutes, _) = nanos_to_time(nanos);\n    subday_hours as i64 * 60 + days as i64 * 24 * 60 + subhour_minutes as i64', 'reorder the summands in days_nanos_to_minutes'),
    ('C08', 'src/time.rs', r'// ########################################\n//\n//  TimeUtility trait implementation', '// (comment edited)\n// ########################################\n//\n//  TimeUtility trait implementation', 'edit a comment'),
]


def run_check(prop, repo):
    env = dict(os.environ, VERIF_REPO=repo)
    p = subprocess.run([os.path.join(VERIF, 'check'), prop, '--tier', 'quick'], env=env, capture_output=True, text=True)
    return p.returncode, p.stdout


def run(only=None):
    root = os.path.join(os.environ.get('VERIF_SCRATCH', '/root/.cache/astrolabe-verif'), 'selftest-%d' % os.getpid())
    copy = os.path.join(root, 'repo')
    os.makedirs(root, exist_ok=True)
    bad = 0
    saved = {}
    for f in glob.glob(os.path.join(VERIF, 'evidence', '*.json')):
        saved[f] = open(f).read()
    try:
        def fresh():
            subprocess.run(['rsync', '-a', '--delete', '--exclude', 'target', '/repo/', copy + '/'], check=True)
            subprocess.run(['git', 'checkout', '-q', '--', '.'], cwd=copy)
        seeds = sorted(glob.glob(os.path.join(VERIF, 'seeded', '*', 'meta.json')))
        props = sorted(set(json.load(open(m))['property'] for m in seeds))
        if only:
            props = [p for p in props if p == only]
        for prop in props:
            if prop == 'C11' and not os.environ.get('SELFTEST_KANI'):
                print('selftest %s: skipped (set SELFTEST_KANI=1; about 2 min per change)' % prop)
                continue
            fresh()
            rc, out = run_check(prop, copy)
            print('selftest %s unchanged copy: exit %d' % (prop, rc))
            if rc != 0:
                bad += 1
        for m in seeds:
            meta = json.load(open(m))
            if only and meta['property'] != only:
                continue
            if meta['property'] == 'C11' and not os.environ.get('SELFTEST_KANI'):
                continue
            fresh()
            a = subprocess.run(['git', 'apply', os.path.join(os.path.dirname(m), 'patch.diff')], cwd=copy, capture_output=True, text=True)
            if a.returncode != 0:
                print('selftest %s: patch no longer applies (%s)' % (meta['id'], a.stderr.strip()[:80]))
                continue
            rc, out = run_check(meta['property'], copy)
            want = 1 if meta.get('check_exit') == 1 else 0
            ok = (rc == want) if want == 1 else (rc in (0, 2))
            print('selftest %s (%s): exit %d, expected %s -> %s' % (meta['id'], meta['property'], rc, 'VIOLATION' if want else 'documented miss', 'ok' if ok else 'UNEXPECTED'))
            if not ok:
                bad += 1
        for prop, rel, pat, rep, desc in HARMLESS:
            if only and prop != only:
                continue
            fresh()
            p = os.path.join(copy, rel)
            s = open(p).read()
            s2, k = re.subn(pat, rep, s)
            if not k:
                print('selftest harmless edit (%s): pattern not found, skipped' % desc)
                continue
            open(p, 'w').write(s2)
            rc, out = run_check(prop, copy)
            ok = rc in (0, 2)
            print('selftest harmless edit %s (%s): exit %d -> %s' % (prop, desc, rc, 'ok' if ok else 'FALSE ALARM'))
            if not ok:
                bad += 1
    finally:
        shutil.rmtree(root, ignore_errors=True)
        for f, txt in saved.items():
            open(f, 'w').write(txt)
    print('selftest: %d unexpected result(s)' % bad)
    return 1 if bad else 0
