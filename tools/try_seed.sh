#!/bin/sh
# usage: try_seed.sh <seed-dir-with-patch.diff> <prop> [<prop>...] ; applies, runs quick checks, reverts
d=$1; shift
cd /repo || exit 9
git diff --quiet || { echo "/repo not clean"; exit 9; }
git apply "$d/patch.diff" || { echo "patch does not apply"; exit 9; }
for p in "$@"; do (cd /verif && ./check "$p" --tier quick; echo "  -> $p exit=$?"); done
git -C /repo checkout -- .
git -C /verif checkout -- evidence 2>/dev/null
