#!/usr/bin/env python3
"""Cross-alarm matrix: applies each named seeded change to a clone of /repo HEAD and runs EVERY claimed check on it.
Output: one line per (seed, property) with the exit code. A VIOLATION from a property other than the seed's own is only
acceptable when that property really is broken by the change (shared functions); this table is what DESIGN §7 discusses.
usage: cross_matrix.py <seed-id> [<seed-id> ...]      (env SKIP_PROPS=C11 to leave slow checks out)"""
import sys, os, json, subprocess, shutil

VERIF = os.path.dirname(os.path.dirname(os.path.abspath(__file__)))


def main(ids):
    root = os.path.join(os.environ.get('VERIF_SCRATCH', '/root/.cache/astrolabe-verif'), 'cross-%d' % os.getpid())
    os.makedirs(root, exist_ok=True)
    copy = os.path.join(root, 'repo')
    props = [c['property_id'] for c in json.load(open(os.path.join(VERIF, 'MANIFEST.json')))['checks']]
    skip = set(os.environ.get('SKIP_PROPS', '').split(','))
    try:
        for sid in ids:
            d = os.path.join(VERIF, 'seeded', sid)
            meta = json.load(open(os.path.join(d, 'meta.json')))
            shutil.rmtree(copy, ignore_errors=True)
            subprocess.run(['git', 'clone', '-q', '/repo', copy], check=True)
            a = subprocess.run(['git', 'apply', os.path.join(d, 'patch.diff')], cwd=copy, capture_output=True, text=True)
            if a.returncode != 0:
                print('cross %s: patch does not apply' % sid, flush=True)
                continue
            row = []
            for p in props:
                if p in skip:
                    continue
                r = subprocess.run([os.path.join(VERIF, 'check'), p, '--tier', 'quick'], env=dict(os.environ, VERIF_REPO=copy), capture_output=True, text=True)
                viol = [l.split('replay=')[1].split('/')[-1] for l in r.stdout.split('\n') if l.startswith('VIOLATION')]
                row.append('%s=%d' % (p, r.returncode))
                print('cross %s (own property %s) %s: exit %d %s' % (sid, meta.get('property'), p, r.returncode, ' '.join(viol)[:200]), flush=True)
            print('crossrow %s own=%s %s' % (sid, meta.get('property'), ' '.join(row)), flush=True)
    finally:
        shutil.rmtree(root, ignore_errors=True)


if __name__ == '__main__':
    main(sys.argv[1:])
