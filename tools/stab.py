#!/usr/bin/env python3
"""stability probe: run verus on a generated file with several Z3 seeds; print per-function worst case."""
import json, subprocess, sys, concurrent.futures as cf
f = sys.argv[1]
seeds = int(sys.argv[2]) if len(sys.argv) > 2 else 4
extra = sys.argv[3:]
def run(seed):
    cmd = ['verus', f, '--output-json', '--time', '--triggers-mode', 'silent', '--rlimit', '60', '--crate-name', 's%d' % seed]
    if seed:
        cmd += ['--smt-option', 'smt.random_seed=%d' % seed, '--smt-option', 'sat.random_seed=%d' % seed]
    cmd += extra
    p = subprocess.run(cmd, capture_output=True, text=True, cwd='/tmp')
    try:
        d = json.loads(p.stdout)
    except Exception:
        return seed, None, p.stderr[-3000:]
    res = {}
    for m in d['times-ms'].get('smt', {}).get('smt-run-module-times', []):
        for fb in m['function-breakdown']:
            res[fb['function']] = (fb['success'], fb['time'], fb['rlimit'])
    if not res: return seed, None, 'NO FUNCTIONS VERIFIED ' + p.stderr[:1500]
    return seed, res, p.stderr if not d['verification-results']['success'] else ''
with cf.ThreadPoolExecutor(8) as ex:
    out = list(ex.map(run, range(seeds)))
agg = {}
for seed, res, err in out:
    if res is None:
        print('seed', seed, 'NO JSON', err); continue
    for k, v in res.items():
        agg.setdefault(k, []).append((seed,) + v)
for k, vs in sorted(agg.items()):
    fails = [v[0] for v in vs if not v[1]]
    mx = max(v[3] for v in vs); mn = min(v[3] for v in vs)
    tm = max(v[2] for v in vs)
    if fails or mx > 3000000:
        print('%-50s fails=%s rlimit %d..%d  max %d ms' % (k, fails, mn, mx, tm))
print('seeds ok:', [o[0] for o in out if o[1] is not None and not o[2]], ' functions:', len(agg))
for seed, res, err in out:
    if err and res is not None:
        import re
        print('--- seed', seed); print('\n'.join(l for l in err.split('\n') if l.startswith('error') or '-->' in l)[:1500])
