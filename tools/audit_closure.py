#!/usr/bin/env python3
"""Modular-closure audit: every contract a unit ASSUMES for a callee (//@assume -> external_body) must be the contract some unit
PROVES for the same source function, with identical text. Prints the assumed contracts that are proved nowhere.
usage: audit_closure.py [--json]"""
import sys, os, json, re, hashlib
sys.path.insert(0, os.path.dirname(os.path.abspath(__file__)))
import extract

VERIF = os.path.dirname(os.path.dirname(os.path.abspath(__file__)))


def contract_text(b, e):
    """signature + requires/ensures of a generated function (up to the opening brace of its body), whitespace-normalised."""
    lines = b.lines[int(e['first']) - 1:int(e['last'])]
    txt = '\n'.join(l for l in lines if not l.strip().startswith('#['))
    # cut at the body: for assumed fns the body is `{ unimplemented!() }`; for proved ones the first `{` at depth 0 after the spec
    i = txt.find('{ unimplemented!() }')
    if i >= 0:
        txt = txt[:i]
    else:
        # the spliced contract ends where the body brace starts a line
        m = re.search(r'\n\s*\{', txt)
        if m:
            txt = txt[:m.start()]
        else:
            fnpos, bopen, bclose = extract._sig_body(txt)
            txt = txt[:bopen]
    txt = re.sub(r'/\*g<\*/|/\*>g\*/', '', txt)
    txt = re.sub(r'//[^\n]*', '', txt)
    return ' '.join(txt.split())


def audit(repo='/repo'):
    units = json.load(open(os.path.join(VERIF, 'contracts', 'units.json')))
    units = units if isinstance(units, list) else units['units']
    proved, assumed = {}, []
    for u in units:
        for v in u.get('variants', ['A']):
            b = extract.build_unit(os.path.join(VERIF, 'contracts', u['template']), repo, v)
            for k, e in b.fns.items():
                if not e.get('file'):
                    continue
                ident = (e['file'], e.get('impl'), e['src_name'], k.split('@')[0])
                ct = contract_text(b, e)
                if e.get('assumed'):
                    assumed.append((ident, ct, u['name'], v))
                else:
                    proved.setdefault(ident, {}).setdefault(ct, []).append('%s/%s' % (u['name'], v))
    missing = []
    for ident, ct, un, v in assumed:
        if ct not in proved.get(ident, {}):
            missing.append({'function': '%s %s::%s (as %s)' % (ident[0], ident[1] or '', ident[2], ident[3]), 'assumed_in': '%s/%s' % (un, v),
                            'proved_variants_with_other_text': sorted(sum(proved.get(ident, {}).values(), []))})
    return {'assumed_contracts': len(assumed), 'distinct_functions_proved': len(proved), 'assumed_but_proved_nowhere': missing}


if __name__ == '__main__':
    r = audit()
    if '--json' in sys.argv:
        print(json.dumps(r, indent=1))
    else:
        print('assumed contracts: %d, functions proved: %d, assumed but proved nowhere with that text: %d' %
              (r['assumed_contracts'], r['distinct_functions_proved'], len(r['assumed_but_proved_nowhere'])))
        seen = set()
        for m in r['assumed_but_proved_nowhere']:
            key = (m['function'], tuple(m['proved_variants_with_other_text']))
            if key in seen:
                continue
            seen.add(key)
            print('  %-70s assumed in %-14s proved (other text) in %s' % (m['function'], m['assumed_in'], m['proved_variants_with_other_text']))
