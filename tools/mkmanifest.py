#!/usr/bin/env python3
"""Writes MANIFEST.json from the table below (kept next to the code so it stays current)."""
import json, os
VERIF = os.path.dirname(os.path.dirname(os.path.abspath(__file__)))

TB = ("Trusted: Verus 0.2026.09.13 / Z3; the extractor's syntactic normalisations N1-N7 (self-checked every run) and N10 (derive(PartialEq) on a struct expanded to the field-wise impl it stands for); assume_specification for "
      "iN::is_negative/is_positive/abs/unsigned_abs/rem_euclid/div_euclid, Result::unwrap_or_else, i64::from(bool); message strings dropped "
      "(format!/panic! text); derives (Default/PartialEq/Ord on Date) by their documented meaning; ")
CLAIMED = {
 'C01': dict(
    text="Verus proves, for all 2^32 day numbers and all (i32,u32,u32) triples, the contracts of the real days_to_date, date_to_days, "
         "validate_date, year_month_to_doy, leap_years, is_leap_year, Date/DateTime::from_ymd/as_ymd/year/month/day (text extracted from /repo "
         "on every run) against a calendar spec written from the property: read-back equals date_of(n), the calendar defined by stepping day by "
         "day from 0001-01-01 (so consecutive days are consecutive dates), it is a valid date whose day number is the input, and construction "
         "returns exactly that day number iff the triple is a valid in-range date and OutOfRange otherwise; injectivity is lemma_civil_unique.",
    note=TB + "nothing else.", ref="5 C01"),
 'C02': dict(
    text="Verus proves days_to_wday == (d+1) mod 7 (0=Sunday, day 719162 is Thursday) for all i32 days, days_to_doy == before_month+day of "
         "date_of(d), validate_doy / year_doy_to_days / set_day_of_year accept exactly 1..=year_len within the documented range and land on "
         "before_year(y)+n-1, the Date/DateTime getters read those of the local day, and days_to_wyear (format symbol w) == ISO-8601 week "
         "defined by the Thursday of the week (lemma_wyear: Tondering's formula against that definition, all days). NOT covered: the quarter "
         "expression and the e/D/w/q format arms' rendering (only reachable through formatting).",
    note=TB + "the q/e/D/w format arms themselves (which value is rendered at which width) are outside this check.", ref="5 C02"),
 'C03': dict(
    text="Verus proves secs_to_days_nanos / days_nanos_to_secs / from_seconds / as_seconds / from_timestamp / timestamp (Date and DateTime) "
         "against d*86400 + n/1e9 == s for all i64 seconds: round trip, timestamp 0 == day 719162 00:00, Ok iff in range; from_timestamp in two "
         "variants (A: in range => no panic and right value; B: whenever it returns the argument was in range). eq/cmp of DateTime are "
         "equality/order of days*NPD+nanos, independent of the offset field; agreement with *_since follows from C06's trunc_div contracts.",
    note=TB + "variant B of DateTime::from_timestamp assumes timestamp + 719162*86400 does not overflow i64 (beyond that a debug build panics on the addition, a release build wraps to an out-of-range value and panics).", ref="5 C03"),
 'C04': dict(
    text="Verus proves for every add_/sub_ of days..nanoseconds on DateTime and Date, and the +/- operators with Duration and Time, in two "
         "variants from the same extracted text: A (panic! has precondition false): representable target => no panic, instant(r) == "
         "instant(self) +/- count*unit exactly, offset unchanged, nanoseconds < one day; B (panic diverges): whenever the call returns, the "
         "target was representable and the value is that one. All u32 counts, all i32 days, all Durations; overflow and truncating casts are obligations.",
    note=TB + "std::time::Duration as an uninterpreted nanosecond count with trusted accessors.", ref="5 C04"),
 'C05': dict(
    text="Verus proves shift_months (the body of add_/sub_months/years) against shifted(date_of(d), N): month index astro(y)*12+m-1+N split by "
         "floor division, label_of skips year 0, day reduced to mdays of the target; Ok iff that date is in range, for all days and all u32 N; "
         "the Date/DateTime wrappers in variants A/B (panic exactly when out of range), time of day and offset unchanged.",
    note=TB + "nothing else.", ref="5 C05"),
 'C06': dict(
    text="Verus proves every *_since of DateTime, Time and Date equals trunc_div(instant(a)-instant(b), unit) (nanos: exact difference) for all "
         "well-formed pairs, through exact contracts on days_nanos_to_*, nanos_to_sub*_nanos and since_i32/i64/i128 plus lemma_trunc_since; "
         "duration_between is the absolute difference for all three types. Antisymmetry and inverse-of-add follow from the closed form.",
    note=TB + "Duration accessors/constructors and Duration + Duration trusted; std::cmp::min/max on &DateTime modelled over the verified cmp.", ref="5 C06"),
 'C07': dict(
    text="Verus proves months_between == mb(date_of(a), na, date_of(b), nb) for all i32 day pairs and all nanos, where mb is month-index difference "
         "corrected by one toward zero when the day/time-of-day has not been reached; years_between == that count / 12 truncated toward zero; and "
         "three lemmas over mb that are the property itself: lemma_mb_bracket (a >= b, day(b) <= 28 => shifted(b,n) <= a < shifted(b,n+1) with "
         "the same month arithmetic as C05), lemma_mb_antisymmetric, lemma_mb_monotone; lemma_key_is_instant_order ties the comparison key to instants.",
    note=TB + "the function contract is a functional restatement of the code; the property is carried by the lemmas over it (both are checked each run).", ref="5 C07"),
 'C08': dict(
    text="Verus proves for the whole Time API: constructors accept exactly values inside the day and produce nanoseconds < 86400e9; every "
         "add_/sub_ (all u32 counts), Time+Time, Time-Time, Time+/-Duration, From<DateTime> return (t +/- amount) mod 24 h with the offset "
         "kept; eq/cmp compare nanoseconds, so equal fields under offset 0 means equal values.",
    note=TB + "Duration trusted as in C04.", ref="5 C08"),
 'C09': dict(
    text="Verus proves the 10 setters and 9 clear_until_* on DateTime, Time and Date over the LOCAL instant l = instant + offset*1e9 for every "
         "Fixed offset in (-86400, 86400): Ok iff the value is in range (date setters: iff the target date exists, is representable and its UTC "
         "instant is representable), the set field reads v, the local day and every coarser field and finer remainder are unchanged; clears "
         "zero the unit and everything finer in local time.",
    note=TB + "Preconditions: DateTime operations need the instant at least 2 days inside the range ends (clear_until_month/day: 368 days above the lower end, where the first of the month/year is not representable and the call panics); Offset::Local is an arbitrary value per call, so field-level clauses are stated for Fixed offsets.", ref="5 C09"),
 'C10': dict(
    text="Verus proves Offset::default, add/remove_offset_to/from_nanos/dn, set_offset (instant unchanged, offset stored; panics exactly when the "
         "local instant to the second is unrepresentable: variants A/B), as_offset (instant moves by minus the offset), get_offset, and every "
         "getter of DateTime and Time == the field of the instant shifted by the offset, for all Fixed offsets in range.",
    note=TB + "Offset::resolve is trusted (Fixed(s) -> s; Local -> arbitrary value in range per call); Offset::from_seconds/from_hms/resolve_hms are under C15's unit; formatted fields are outside (C11).", ref="5 C10"),
 'C17': dict(
    text="Verus proves the real CronSchedule::next for every clock reading, in two variants (B: partial correctness for any schedule; A: total correctness - the loop terminates by `decreases w - inst(next)` and no add_*/clear_* call can panic - whenever some matching minute w lies after the base and 70 days before the end of the range, i.e. for satisfiable schedules): the result t is a whole minute, matches the "
         "schedule as the property defines it (month, hour, minute sets and the day-of-month OR day-of-week rule by which fields are restricted), "
         "is later than base = max(previous result, current minute of the clock reading clock_now(), an uninterpreted value, so every reading is covered), and no matching whole minute lies in (base, t) - by a loop "
         "invariant with one calendar lemma per skip (a month/day/hour/minute outside the set contains no match); last_schedule is updated and "
         "the five sets are unchanged. cron_two_calls composes two calls: strictly increasing, nothing skipped or repeated (induction step of the "
         "history property). The DateTime getters/clears it uses are proved for offset-0 values in unit cron_view; add_* are the C04/C05 contracts (variant B).",
    note=TB + "termination and panic-freedom are proved under the witness precondition of variant A only (an unsatisfiable schedule walks to the end of the range, where add_months panics: variant B lets that diverge and uses exec_allows_no_decreases_clause); DateTime::now() returns the uninterpreted clock_now() (any well-formed UTC value >= 1970; within one verification condition the same at every call, next() reads it once); std HashSet<u8> through vstd's model (group_hash_axioms); `last >= now` through the real PartialEq/PartialOrd/Ord impls proved in unit ord; derive(Clone) on CronSchedule (a clone continues identically) trusted; CronSchedule::parse is outside (C16).", ref="5 C17"),
 'C18': dict(
    technique='contract-based deductive verification (Verus/Z3) of functions extracted mechanically from /repo; bounded Kani/CBMC harnesses (labelled bounded) for the table decoder from_tzif',
    text="Verus proves TimeZone::to_local_time_type(ts).utoff == tz_offset(tz, ts), the RFC 8536 reading written from the property: the type of "
         "the latest transition at or before ts (sorted table), and past the last transition or with none the POSIX TZ footer rule: fixed, or "
         "std/dst switching at Jn (29 Feb never counted), n (zero-based) and Mm.w.d (w-th weekday, 5 = last) dates at their local times, in "
         "either hemisphere; weekdays_in_month, rule_to_local_timestamp, rule_to_local_time_type under contract. Decode half: the footer parser "
         "TransitionRule::from_tz_string and its field parsers are proved against a POSIX TZ grammar written as spec functions (posix_tz: "
         "std offset [dst [offset],rule,rule], Jn | n | Mm.w.d, [/time], utoff = -offset, dst default std-1h): every well-formed ASCII footer "
         "yields exactly the grammar's rule. The table decoder from_tzif (chunks_exact/zip/from_be_bytes, outside Verus) has BOUNDED Kani "
         "stand-ins only: version-1 files with concrete counts (1 transition/1 type, 0/1) and symbolic table bytes decode to the big-endian "
         "values of the bytes; larger counts and version-2/3 layouts do not finish and are unverified.",
    note=TB + "holds for timestamps whose UTC year is within +-5_879_500 (rule dates of the first/last representable years are not constructible); table decoding beyond the bounded harnesses (v2/v3, more than one entry) is unverified; parse_int's numeric value (str::parse), the ASCII meaning of str::starts_with/ends_with/contains/trim_matches/from_utf8 and three UTF-8 axioms are trusted; negative /time values of v3 footers are outside the footer statement; derive(Clone) on LocalTimeType modelled field-wise.", ref="5 C18"),
 'C19': dict(
    technique='contract-based deductive verification (Verus/Z3) of functions extracted mechanically from /repo; loop-free Kani/CBMC harness for Header::parse, bounded Kani harnesses (labelled bounded) and a syntactic exit-shape check for from_tzif',
    text="Verus proves (1) validate() returns Ok exactly on data satisfying tz_wf (every transition's type index has a type, types non-empty "
         "whenever a lookup can index them, rule months 1..=12, weeks 1..=5, days 0..=6, J 1..=365, n 0..=364), for tables of any length; (2) under "
         "tz_wf every index, unwrap, subtraction and conversion in to_local_time_type and the rule functions is safe for every timestamp in "
         "range (no precondition on sortedness). from_tzif ends in validate()? so nothing it returns violates tz_wf. (3) Parser pieces that "
         "Verus can read are panic-free for every input: all 8 Cursor methods (split_at, indexing), DataBlock::parse (count arithmetic) and "
         "the footer field parsers remove_designation, parse_hms, parse_tz_string_offset(_extended), parse_tz_string_rule - every "
         "expect(BUG_MSG) in them is a discharged obligation - and the footer parser TransitionRule::from_tz_string itself, for every byte string "
         "and either flag (its five std text calls go through total wrappers; `-std_offset` and `std_offset - 3600` cannot overflow by the "
         "offset parser's range postcondition). parse_int's str::from_utf8(..).expect(..) is discharged through a cursor invariant: the "
         "remaining bytes stay valid UTF-8 because every cut is next to an ASCII byte (three UTF-8 axioms). Header::parse (slice patterns) "
         "is a loop-free Kani harness. (4) The real Offset::resolve (cfg(unix) arm) is proved: no panic for any outcome of reading and decoding "
         "/etc/localtime (fall back to 0), otherwise the zone's offset at the clock reading. NOT covered by a proof: the body of from_tzif "
         "(chunks_exact/zip, from_be_bytes conversions), declared in unit resolve as returning Err or validated data.",
    note=TB + "lookups are proved for timestamps whose UTC year is within +-5_879_500; that from_tzif returns only validated data is a syntactic check of its source text on every run (single Ok exit `x.validate()?; Ok(x)`), not a proof; parse_int (generic over FromStr) is declared, not extracted: assumed not to panic on valid UTF-8 (that its argument is valid UTF-8 is proved); three UTF-8 axioms and the totality of str::from_utf8/starts_with/ends_with/contains/trim_matches are trusted; 64-bit usize; fs::read is a declared total wrapper; the clock reading is between 1970 and day 2e9.", ref="5 C19"),
 'C11': dict(
    category='proof', engine='verus+kani',
    technique='contract-based deductive verification (Verus/Z3) of the part renderers extracted mechanically from /repo with their format! calls kept (literal and arguments visible); plus per-row loop-free Kani/CBMC harnesses over full-domain symbolic values on the real format_date_part / format_time_part with recording stubs (-Z stubbing)',
    text="Per pattern part: Verus proves that the real format_part / format_date_part / format_time_part / format_month / format_wday / "
         "format_period / format_zone / zero_padded_i / add_ordinal_indicator / get_length return exactly the text the documented symbol table "
         "prescribes (spec part_text written from the table: zero-padded getter values at the stated or default width, English names, era, "
         "AM/PM/noon/midnight, Qn / nth quarter, yy, sub-second digits, zone forms with sign, colons and optional seconds), for every day number, "
         "time of day, offset and run length. format! calls are kept as verif_fmtN(literal, args) with {} substitution defined in the spec "
         "(fmt_spec) and per-literal lemmas proved from it. In addition 176 (quick: 86) loop-free Kani rows check value/width/order on the real "
         "str-handling code with recording stubs. Level proof for the parts; whole patterns (tokenizer, quoting, concatenation) are not covered.",
    note=TB + "NOT covered: parse_format_string (tokenizer), quoted text and '' handling, the flat_map/collect assembly in the three format() methods; yy for "
         "years before 1. Trusted for the Verus part: format! with plain {} placeholders concatenates the Display texts; zero_padded ({:0width$}) is the "
         "zero-padded decimal; 10_u32.pow; the ASCII meaning of chars().next(), str/String::len, to_string, &s[k..], parse::<i32>() (declared wrappers, N8 "
         "substitutions listed in the evidence); const-array `.into_iter().nth(i).unwrap()` written as indexing. Trusted for the rows: Kani 0.68/CBMC 6.11; "
         "stubs for zero_padded, zero_padded_i, alloc::fmt::format; calendar getters replaced by arbitrary in-range values; checks located in std/kani_lib.c ignored.", ref="5 C11"),
 'C15': dict(
    text="Verus proves Ok iff valid and Err(OutOfRange) with value == offending argument outside [min,max] for validate_date/doy/time, "
         "time_to_day_seconds, tm::set_*, Time::from_hms/from_seconds/from_nanos, DateTime/Date::from_ymd(hms), all set_* on the three types, "
         "over the full u32/i32 domains (overflow of hour*3600+... is an obligation), on the real OutOfRange struct and create_*_oor.",
    note=TB + "the Display text of the error is not covered; where custom is Some no range is stated.", ref="5 C15"),
}

NOT_APPLICABLE = {
 'C12': "parse(format(v,p),p) relates whole strings: both directions go through the tokenizer parse_format_string (String::replace, chars(), Vec<String> building), the flat_map/collect assembly of format() and the replace_range/slicing loop of parse(); Verus cannot read that std machinery and CBMC does not finish on symbolic String contents (DESIGN 1, 5, 9). What is within reach is decided under C11: the text of every single pattern part.",
 'C13': "format_rfc3339 is format() with a fixed pattern (same assembly as C12) and parse_rfc3339 is text slicing with the arithmetic inline; no function boundary at which a contract could state the grammar without the string machinery (DESIGN 5).",
 'C14': "every panic site is String/&str slicing or indexing on arbitrary caller text; neither verifier can quantify over string contents here, and concrete strings would be testing (another family).",
 'C16': "the cron parser is split_whitespace / split(',') / to_lowercase / parse::<u8>() into HashSets built by iterator chains; no integer core to contract, CBMC crashed at a 4-byte symbolic field (DESIGN 5, 9). The iterator the parser feeds is decided under C17.",
 'C20': "Display/FromStr/serde round trips go through the same rendering, tokenizing and slicing as C12-C14; serde is an external crate.",
}
PENDING = "contract unit not built yet in this session (planned, see DESIGN 4); not claimed until its check exists"
ALL = ['C%02d' % i for i in range(1, 21)]

def main():
    checks = []
    for pid, c in sorted(CLAIMED.items()):
        checks.append({
            'property_id': pid,
            'quick_cmd': './check %s --tier quick' % pid,
            'thorough_cmd': './check %s --tier thorough' % pid,
            'evidence_file': '/verif/evidence/%s.json' % pid,
            'replay_cmd_template': './check --replay {path}',
            'engine': c.get('engine', 'verus'),
            'level_claimed': {'category': c.get('category', 'proof'), 'text': c['text'], 'design_ref': c['ref']},
            'level_note': c['note'],
            'technique': c.get('technique', 'contract-based deductive verification (Verus/Z3) of functions extracted mechanically from /repo'),
        })
    na = []
    for pid in ALL:
        if pid in CLAIMED:
            continue
        na.append({'property_id': pid, 'reason': NOT_APPLICABLE.get(pid, PENDING)})
    m = {
        'version': 1,
        'setup_cmd': 'true',
        'hooks': {
            'guard': 'verif-hooks',
            'enable': 'cargo feature: --features verif-hooks (declared in /repo/Cargo.toml, enabled by nothing by default). Only the counterexample search (tools/cesearch.py) builds /repo with it; the Verus units read source text and the Kani rows inject a #[cfg(kani)] module into a scratch copy, neither needs the hooks',
            'baseline_off_cmd': 'cd /repo && cargo test --workspace --no-fail-fast --offline',
            'source_commits': ['12f81f6 verif hook: verif_hooks::tz_lookup (public entry to the crate-private TZif reader)',
                               '301f6ac verif hook: CronSchedule::verif_set_now (pins the clock next() reads)'],
            'add_only': True,
        },
        'engines': [
            {'name': 'verus', 'path': '/verif/check', 'serves_properties': sorted(CLAIMED), 'kind_free_text': 'deductive verifier (Verus 0.2026.09.13 / Z3) on functions extracted from /repo each run'},
            {'name': 'kani', 'path': '/verif/tools/kani_engine.py', 'serves_properties': ['C11', 'C18', 'C19'], 'kind_free_text': 'Kani 0.68 / CBMC 6.11 harnesses injected into a scratch copy of /repo: loop-free rows (C11), Header::parse (complete) and bounded from_tzif stand-ins (C18, C19)'},
        ],
        'checks': checks,
        'not_applicable': na,
        'notes': 'exit 0 = all obligations discharged; exit 1 + VIOLATION = a named obligation that verifies on the unchanged tree fails (for a property that only depends on the failing function, or shares its contract with a sibling property, additionally a concrete failing input of this property); exit 2 = undecided (lost anchor, unsupported construct, resource limit, or a failing dependency / shared contract without a failing input of this property), never an alarm.',
    }
    with open(os.path.join(VERIF, 'MANIFEST.json'), 'w') as f:
        json.dump(m, f, indent=1)
    print('MANIFEST.json: %d checks, %d not_applicable' % (len(checks), len(na)))

if __name__ == '__main__':
    main()
