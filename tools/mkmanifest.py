#!/usr/bin/env python3
"""Writes MANIFEST.json from the table below (kept next to the code so it stays current)."""
import json, os
VERIF = os.path.dirname(os.path.dirname(os.path.abspath(__file__)))

CLAIMED = {
 'C01': dict(
    text="Verus proves, for all 2^32 day numbers and all (i32,u32,u32) triples, the contracts of the real days_to_date, date_to_days, "
         "validate_date, year_month_to_doy, leap_years, is_leap_year (text extracted from /repo on every run) against a calendar spec "
         "written from the property: read-back is a valid date whose day number is the input, construction returns exactly that day "
         "number iff the triple is a valid in-range date and OutOfRange otherwise; bijection/consecutiveness follow as lemmas.",
    note="Trusted: Verus/Z3, the extractor's syntactic normalisations (self-checked), assume_specification for i32::is_negative/"
         "is_positive/abs, message strings dropped. Date/DateTime wrappers from_ymd/as_ymd are one-line forwards under contract in unit api.",
    ref="5 C01"),
}

NOT_APPLICABLE = {
 'C12': "parse(format(v,p),p) is a relation between rendered texts; Verus has no str byte reasoning and CBMC cannot execute symbolic format!/String code here (measured, DESIGN 7).",
 'C13': "parse_rfc3339/format_rfc3339 are text slicing/rendering with the arithmetic inline; no callable integer core, symbolic strings out of reach of both verifiers (DESIGN 7).",
 'C14': "every panic site is String/&str slicing on arbitrary text; neither verifier can quantify over string contents here, and concrete strings would be testing (another family).",
 'C16': "the cron parser is &str splitting into a HashSet; no integer core to contract; CBMC crashed at a 4-byte symbolic field (DESIGN 7).",
 'C20': "Display/FromStr/serde round trips go through the same rendering and slicing as C12/C14; serde is an external crate.",
}
PENDING = "contract unit not built yet in this session (planned, see DESIGN 4); not claimed until its check exists"
ALL = ['C%02d' % i for i in range(1, 21)]

def main():
    checks = []
    for pid, c in sorted(CLAIMED.items()):
        checks.append({
            'property_id': pid,
            'quick_cmd': './check %s --tier quick' % pid,
            'thorough_cmd': './check %s --tier thorough' % pid,
            'evidence_file': '/verif/evidence/%s.json' % pid,
            'replay_cmd_template': './check --replay {path}',
            'engine': c.get('engine', 'verus'),
            'level_claimed': {'category': c.get('category', 'proof'), 'text': c['text'], 'design_ref': c['ref']},
            'level_note': c['note'],
            'technique': c.get('technique', 'contract-based deductive verification (Verus/Z3) of functions extracted mechanically from /repo'),
        })
    na = []
    for pid in ALL:
        if pid in CLAIMED:
            continue
        na.append({'property_id': pid, 'reason': NOT_APPLICABLE.get(pid, PENDING)})
    m = {
        'version': 1,
        'setup_cmd': 'true',
        'hooks': {
            'guard': 'astrolabe_verif',
            'enable': 'RUSTFLAGS="--cfg astrolabe_verif" (replay crate only; the Verus units read source text and need no hook)',
            'baseline_off_cmd': 'cd /repo && cargo test --workspace --no-fail-fast --offline',
            'source_commits': [],
            'add_only': True,
        },
        'engines': [
            {'name': 'verus', 'path': '/verif/check', 'serves_properties': sorted(CLAIMED), 'kind_free_text': 'deductive verifier (Verus 0.2026.09.13 / Z3) on functions extracted from /repo each run'},
        ],
        'checks': checks,
        'not_applicable': na,
        'notes': 'exit 0 = all obligations discharged; exit 1 + VIOLATION = a named obligation that verifies on the unchanged tree fails; exit 2 = undecided (lost anchor, unsupported construct, rlimit), never an alarm.',
    }
    with open(os.path.join(VERIF, 'MANIFEST.json'), 'w') as f:
        json.dump(m, f, indent=1)
    print('MANIFEST.json: %d checks, %d not_applicable' % (len(checks), len(na)))

if __name__ == '__main__':
    main()
