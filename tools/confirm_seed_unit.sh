#!/bin/sh
# like confirm_seed.sh, for seeds whose demo is a #[cfg(test)] module to append to a source file:
# usage: confirm_seed_unit.sh <worktree> <seed-dir> <id> <file-to-append-demo-to>
wt=$1; d=$2; id=$3; f=$4
cd "$wt" || exit 9
git checkout -q -- . ; git clean -fdq tests
git apply "$d/patch.diff" || { echo "patch does not apply"; exit 9; }
suite=$(cargo test --workspace --offline --lib --tests --no-fail-fast 2>&1 | grep -E 'test result|FAILED|panicked at')
echo "$suite" | grep -q -E 'FAILED|failed;[^0]*[1-9][0-9]* failed' && suite_ok=no || suite_ok=yes
echo "$suite" | grep -E 'test result' | awk '{p+=$4; f+=$6} END {print "suite with change: passed=" p " failed=" f}'
cat "$d/demo.rs" >> "$f"
cargo test --offline --lib seed_demo >/tmp/seed_demo_mut.log 2>&1 && demo_mut=pass || demo_mut=fail
git checkout -q -- .
cat "$d/demo.rs" >> "$f"
cargo test --offline --lib seed_demo >/tmp/seed_demo_clean.log 2>&1 && demo_clean=pass || demo_clean=fail
git checkout -q -- .
echo "suite_ok_with_change=$suite_ok demo_with_change=$demo_mut demo_without_change=$demo_clean"
if [ "$suite_ok" = yes ] && [ "$demo_mut" = fail ] && [ "$demo_clean" = pass ]; then
  mkdir -p /verif/seeded/$id && cp "$d/patch.diff" "$d/demo.rs" /verif/seeded/$id/ && cp "$d/meta.json" /verif/seeded/$id/meta.agent.json && echo CONFIRMED $id
else
  echo REJECTED $id
fi
