"""Minimal brace-matching Rust item scanner (no external deps).

It never interprets expressions: it only needs to know where strings, chars,
comments and balanced () [] {} are, so that items and function bodies can be
cut out of /repo/src *verbatim*.
"""
import re


class ScanError(Exception):
    pass


def skip_string(s, i):
    """s[i] == '"' ; returns index after closing quote."""
    n = len(s)
    i += 1
    while i < n:
        c = s[i]
        if c == '\\':
            i += 2
            continue
        if c == '"':
            return i + 1
        i += 1
    raise ScanError("unterminated string")


def skip_raw_string(s, i):
    """s[i] == 'r' followed by #*" ; returns index after the closing quote, or None."""
    m = re.match(r'r(#*)"', s[i:i + 40])
    if not m:
        return None
    hashes = m.group(1)
    end = s.find('"' + hashes, i + len(m.group(0)))
    if end < 0:
        raise ScanError("unterminated raw string")
    return end + 1 + len(hashes)


def skip_char_or_lifetime(s, i):
    """s[i] == "'" ; returns index after the char literal or lifetime."""
    n = len(s)
    if i + 1 < n and s[i + 1] == '\\':
        j = i + 2
        while j < n and s[j] != "'":
            j += 1
        return j + 1
    if i + 2 < n and s[i + 2] == "'":
        return i + 3
    # lifetime / label
    j = i + 1
    while j < n and (s[j].isalnum() or s[j] == '_'):
        j += 1
    return j


def skip_comment(s, i):
    """s[i:i+2] is // or /* ; returns index after the comment."""
    if s.startswith('//', i):
        j = s.find('\n', i)
        return len(s) if j < 0 else j
    depth = 0
    n = len(s)
    while i < n:
        if s.startswith('/*', i):
            depth += 1
            i += 2
        elif s.startswith('*/', i):
            depth -= 1
            i += 2
            if depth == 0:
                return i
        else:
            i += 1
    raise ScanError("unterminated block comment")


def next_code(s, i, end=None):
    """Generator-free stepping helper: returns (kind, start, stop) of the lexical
    chunk starting at i. kind in {'ws','comment','string','char','code'}; 'code' is one char."""
    c = s[i]
    if c.isspace():
        j = i
        n = len(s) if end is None else end
        while j < n and s[j].isspace():
            j += 1
        return 'ws', i, j
    if s.startswith('//', i) or s.startswith('/*', i):
        return 'comment', i, skip_comment(s, i)
    if c == '"':
        return 'string', i, skip_string(s, i)
    if c == 'b' and i + 1 < len(s) and s[i + 1] == '"' and not _ident_before(s, i):
        return 'string', i, skip_string(s, i + 1)
    if c == 'r' and not _ident_before(s, i):
        j = skip_raw_string(s, i)
        if j is not None:
            return 'string', i, j
    if c == "'":
        return 'char', i, skip_char_or_lifetime(s, i)
    return 'code', i, i + 1


def _ident_before(s, i):
    return i > 0 and (s[i - 1].isalnum() or s[i - 1] == '_')


OPEN = {'(': ')', '[': ']', '{': '}'}
CLOSE = {')', ']', '}'}


def match_close(s, i):
    """s[i] is an opening bracket; returns the index of the matching closer."""
    stack = [OPEN[s[i]]]
    i += 1
    n = len(s)
    while i < n:
        kind, a, b = next_code(s, i)
        if kind != 'code':
            i = b
            continue
        c = s[i]
        if c in OPEN:
            stack.append(OPEN[c])
        elif c in CLOSE:
            if not stack or stack[-1] != c:
                raise ScanError("unbalanced %r at %d" % (c, i))
            stack.pop()
            if not stack:
                return i
        i += 1
    raise ScanError("unbalanced brackets")


class Item:
    __slots__ = ('kind', 'name', 'start', 'hstart', 'body_open', 'end', 'header', 'cfg_test', 'attrs')

    def __repr__(self):
        return "Item(%s %s %d..%d)" % (self.kind, self.name, self.start, self.end)


_HDR_PATTERNS = [
    ('fn', re.compile(r'^(?:pub(?:\s*\([^)]*\))?\s+)?(?:default\s+)?(?:const\s+)?(?:async\s+)?(?:unsafe\s+)?(?:extern\s+"[^"]*"\s+)?fn\s+(\w+)')),
    ('const', re.compile(r'^(?:pub(?:\s*\([^)]*\))?\s+)?const\s+(\w+)\s*:')),
    ('static', re.compile(r'^(?:pub(?:\s*\([^)]*\))?\s+)?static\s+(?:mut\s+)?(\w+)')),
    ('struct', re.compile(r'^(?:pub(?:\s*\([^)]*\))?\s+)?struct\s+(\w+)')),
    ('enum', re.compile(r'^(?:pub(?:\s*\([^)]*\))?\s+)?enum\s+(\w+)')),
    ('trait', re.compile(r'^(?:pub(?:\s*\([^)]*\))?\s+)?(?:unsafe\s+)?trait\s+(\w+)')),
    ('mod', re.compile(r'^(?:pub(?:\s*\([^)]*\))?\s+)?mod\s+(\w+)')),
    ('type', re.compile(r'^(?:pub(?:\s*\([^)]*\))?\s+)?type\s+(\w+)')),
    ('use', re.compile(r'^(?:pub(?:\s*\([^)]*\))?\s+)?use\s')),
    ('impl', re.compile(r'^(?:unsafe\s+)?impl\b')),
    ('macro', re.compile(r'^(\w+)!')),
]


def scan_items(s, start=0, end=None):
    """Returns the list of items between start and end (exclusive) at nesting depth 0."""
    if end is None:
        end = len(s)
    items = []
    i = start
    while i < end:
        # leading trivia + attributes form the item's prefix
        pstart = None
        attrs = []
        while i < end:
            kind, a, b = next_code(s, i, end)
            if kind in ('ws',):
                i = b
                continue
            if kind == 'comment':
                if pstart is None:
                    pstart = a
                i = b
                continue
            if s[i] == '#' and (s.startswith('#[', i) or s.startswith('#![', i)):
                if pstart is None:
                    pstart = i
                j = s.index('[', i)
                k = match_close(s, j)
                attrs.append(s[i:k + 1])
                i = k + 1
                continue
            break
        if i >= end:
            break
        hstart = i
        if pstart is None:
            pstart = hstart
        # header runs to the first ';' or '{' at ()[] depth 0
        j = i
        body_open = None
        while j < end:
            kind, a, b = next_code(s, j, end)
            if kind != 'code':
                j = b
                continue
            c = s[j]
            if c in '([':
                j = match_close(s, j) + 1
                continue
            if c == ';':
                break
            if c == '{':
                body_open = j
                break
            j += 1
        if j >= end:
            raise ScanError("item header runs off the end at %d: %r" % (hstart, s[hstart:hstart + 60]))
        header = s[hstart:j]
        it = Item()
        it.start = pstart
        it.hstart = hstart
        it.attrs = attrs
        it.header = ' '.join(header.split())
        it.body_open = body_open
        if body_open is not None:
            close = match_close(s, body_open)
            it.end = close + 1
            # `struct X {..}` `fn` `impl` end at '}', but `const X: T = {..};` / `static` continue to ';'
            if re.match(r'^(?:pub(?:\s*\([^)]*\))?\s+)?(const\s+\w+\s*:|static\s)', it.header):
                k = s.index(';', close)
                it.end = k + 1
        else:
            it.end = j + 1
        it.kind, it.name = 'other', None
        for kind, pat in _HDR_PATTERNS:
            m = pat.match(it.header)
            if m:
                it.kind = kind
                if kind == 'impl':
                    it.name = it.header
                elif kind == 'use':
                    it.name = None
                else:
                    it.name = m.group(1)
                break
        it.cfg_test = any(re.search(r'cfg\s*\(\s*test\s*\)', a) for a in attrs)
        items.append(it)
        i = it.end
    return items


def find_keyword_positions(s, start, end, words):
    """Positions of the given keywords appearing as code tokens in s[start:end] (any depth)."""
    out = []
    i = start
    pat = re.compile(r'\b(' + '|'.join(words) + r')\b')
    while i < end:
        kind, a, b = next_code(s, i, end)
        if kind != 'code':
            i = b
            continue
        if (s[i].isalpha() or s[i] == '_') and not _ident_before(s, i):
            m = re.match(r'\w+', s[i:end])
            w = m.group(0)
            if w in words:
                out.append((i, w))
            i += len(w)
            continue
        i += 1
    return out
