#!/usr/bin/env python3
"""Mechanical extractor: /repo/src items + contract template -> one Verus file.

The template (`contracts/*.vt`) holds only ghost text (spec fns, lemmas, contracts, hints)
and `//@` directives naming the real items; every executable token in the output comes from
the current /repo working tree.  See DESIGN.md 2.1 for what is dropped / normalised.
"""
import hashlib
import json
import os
import re
import sys

sys.path.insert(0, os.path.dirname(os.path.abspath(__file__)))
import rustscan as rs  # noqa: E402

CONTRACTS = os.path.join(os.path.dirname(os.path.dirname(os.path.abspath(__file__))), 'contracts')
G_OPEN = '/*g<*/'
G_CLOSE = '/*>g*/'


class ExtractError(Exception):
    """Anything that makes the unit impossible to build: reported as UNDECIDED (exit 2)."""

    def __init__(self, kind, msg):
        super().__init__("%s: %s" % (kind, msg))
        self.kind = kind
        self.msg = msg


# ----------------------------------------------------------------------------------------
# normalisations (purely syntactic; each counted)
# ----------------------------------------------------------------------------------------

def _replace_macro_calls(text, macro, repl, counts, key):
    """macro!( ...balanced... ) -> repl   (outside strings/comments)."""
    out = []
    i = 0
    n = len(text)
    pat = macro + '!'
    while i < n:
        kind, a, b = rs.next_code(text, i)
        if kind != 'code':
            out.append(text[a:b])
            i = b
            continue
        if text.startswith(pat, i) and not rs._ident_before(text, i):
            j = i + len(pat)
            while j < n and text[j].isspace():
                j += 1
            if j < n and text[j] in '([{':
                k = rs.match_close(text, j)
                out.append(repl)
                counts[key] = counts.get(key, 0) + 1
                i = k + 1
                continue
        out.append(text[i])
        i += 1
    return ''.join(out)


def _split_top_commas(s):
    """splits macro arguments at top-level commas (outside brackets, strings, chars, comments)."""
    parts, cur, i, n = [], [], 0, len(s)
    while i < n:
        kind, a, b = rs.next_code(s, i)
        if kind != 'code':
            cur.append(s[a:b])
            i = b
            continue
        c = s[i]
        if c in '([{':
            k = rs.match_close(s, i)
            cur.append(s[i:k + 1])
            i = k + 1
            continue
        if c == ',':
            parts.append(''.join(cur))
            cur = []
            i += 1
            continue
        cur.append(c)
        i += 1
    if ''.join(cur).strip():
        parts.append(''.join(cur))
    return parts


def _rewrite_format_macros(text, counts):
    """N3f (per-function option fmt=1): `format!("lit", a, b)` -> `verif_fmt2("lit", (a).vd(), (b).vd())` and
    `"lit".to_string()` -> `verif_lit("lit")`: the literal and every argument stay visible to the verifier. Only `{}` placeholders."""
    out = []
    i = 0
    n = len(text)
    while i < n:
        kind, a, b = rs.next_code(text, i)
        if kind != 'code':
            out.append(text[a:b])
            i = b
            continue
        if text.startswith('format!', i) and not rs._ident_before(text, i):
            j = i + len('format!')
            while j < n and text[j].isspace():
                j += 1
            if j < n and text[j] in '([{':
                k = rs.match_close(text, j)
                args = _split_top_commas(text[j + 1:k])
                lit = args[0].strip()
                if not re.match(r'^"(?:[^"\\]|\\.)*"$', lit, re.S):
                    raise ExtractError('unsupported', 'format! with a non-literal format string: %s' % lit[:40])
                holes = re.findall(r'\{[^}]*\}', lit.replace('{{', '').replace('}}', ''))
                if any(h != '{}' for h in holes) or '{{' in lit or '}}' in lit or len(holes) != len(args) - 1:
                    raise ExtractError('unsupported', 'format! literal %s uses more than plain {} placeholders' % lit)
                rest = [_rewrite_format_macros(x.strip(), counts) for x in args[1:]]
                out.append('verif_fmt%d(%s%s)' % (len(rest), lit, ''.join(', (%s).vd()' % x for x in rest)))
                counts['N3f_format_macro_kept_with_arguments'] = counts.get('N3f_format_macro_kept_with_arguments', 0) + 1
                i = k + 1
                continue
        out.append(text[i])
        i += 1
    text = ''.join(out)

    def lit(m):
        counts['N3f_literal_to_string_kept'] = counts.get('N3f_literal_to_string_kept', 0) + 1
        return 'verif_lit(%s)' % m.group(1)
    # the literal itself is a string token: match on the raw text (a literal followed by .to_string())
    text = re.sub(r'("(?:[^"\\]|\\.)*")\s*\.to_string\(\)', lit, text)
    return text


def _code_sub(text, pattern, repl, counts, key):
    """regex substitution applied only to code chunks (not strings / comments / chars)."""
    out = []
    i = 0
    n = len(text)
    buf = []

    def flush():
        if buf:
            chunk = ''.join(buf)
            new, k = re.subn(pattern, repl, chunk)
            if k:
                counts[key] = counts.get(key, 0) + k
            out.append(new)
            buf.clear()

    while i < n:
        kind, a, b = rs.next_code(text, i)
        if kind in ('code', 'ws'):
            buf.append(text[a:b])
        else:
            flush()
            out.append(text[a:b])
        i = b
    flush()
    return ''.join(out)


def _drop_doc_lines(text, counts):
    lines = text.split('\n')
    keep = []
    for ln in lines:
        st = ln.strip()
        if st.startswith('///') or st.startswith('//!'):
            counts['doc_lines_dropped'] = counts.get('doc_lines_dropped', 0) + 1
            continue
        keep.append(ln)
    return '\n'.join(keep)


def _drop_cfg_test(text, counts):
    """N5: drop `#[cfg(test)]` + following statement/item; strip `#[cfg(not(test))]`."""
    text, k = re.subn(r'#\[cfg\(not\(test\)\)\]\s*', '', text)
    if k:
        counts['N5_cfg_not_test_attr_removed'] = counts.get('N5_cfg_not_test_attr_removed', 0) + k
    while True:
        m = re.search(r'#\[cfg\(test\)\]\s*', text)
        if not m:
            break
        # the attributed statement/item: up to ';' at depth 0 or a balanced {...} block
        j = m.end()
        n = len(text)
        while j < n:
            kind, a, b = rs.next_code(text, j)
            if kind != 'code':
                j = b
                continue
            c = text[j]
            if c in '([':
                j = rs.match_close(text, j) + 1
                continue
            if c == '{':
                j = rs.match_close(text, j) + 1
                # `let x = {...};`
                k2 = j
                while k2 < n and text[k2].isspace():
                    k2 += 1
                if k2 < n and text[k2] == ';':
                    j = k2 + 1
                break
            if c == ';' or c == ',':
                j += 1
                break
            if c == '}':
                break
            j += 1
        text = text[:m.start()] + text[j:]
        counts['N5_cfg_test_dropped'] = counts.get('N5_cfg_test_dropped', 0) + 1
    return text


def _select_cfg(text, counts, name):
    """N5b (per-function option cfg=<name>): the verified configuration has cfg(<name>) on: `#[cfg(not(<name>))]` + the statement
    it guards are dropped, `#[cfg(<name>)]` attributes are removed. Reuses the N5 machinery by renaming the attributes."""
    c2 = {}
    t = text.replace('#[cfg(not(%s))]' % name, '#[cfg(test)]').replace('#[cfg(%s)]' % name, '#[cfg(not(test))]')
    if t == text:
        return text
    t = _drop_cfg_test(t, c2)
    counts['N5b_cfg_%s_selected' % name] = counts.get('N5b_cfg_%s_selected' % name, 0) + sum(c2.values())
    return t


def normalise(text, counts, renames=None, keep_derive=('Clone', 'Copy'), keep_fmt=False, cfg=None):
    text = _drop_doc_lines(text, counts)
    text = _drop_cfg_test(text, counts)
    if cfg:
        text = _select_cfg(text, counts, cfg)
    if keep_fmt:
        text = _rewrite_format_macros(text, counts)
    text = _replace_macro_calls(text, 'format', 'verif_fmt()', counts, 'N3_format_macro')
    text = _replace_macro_calls(text, 'panic', 'verif_panic()', counts, 'N4_panic_macro')
    text = _replace_macro_calls(text, 'unreachable', 'verif_panic()', counts, 'N4_unreachable_macro')
    # string literal -> String conversions carry message text only
    text = re.sub(r'"(?:[^"\\]|\\.)*"\s*\.to_string\(\)', lambda m: _cnt(counts, 'N3_literal_to_string', 'verif_fmt()'), text)
    text = _code_sub(text, r'\bpub\s*\(\s*(?:crate|super)\s*\)', 'pub', counts, 'N1_visibility')
    # N9: the elided lifetime of a reference in a const item's type is 'static; verus! wants it written
    def _const_static(m):
        ty = m.group(2)
        if '&str' in ty:
            counts['N9_const_str_lifetime_made_explicit'] = counts.get('N9_const_str_lifetime_made_explicit', 0) + 1
            ty = ty.replace('&str', "&'static str")
        return m.group(1) + ty + '='
    text = re.sub(r'(\bconst\s+[A-Z_][A-Z0-9_]*\s*:\s*)([^=]*)=', _const_static, text)
    text = _code_sub(text, r'\|\s*_\s*\|', '|_e|', counts, 'N2_closure_underscore')
    text = _code_sub(text, r'\b(?:crate|super|self)(?:::[a-z_][a-z0-9_]*)+::(?=[a-z_][a-z0-9_]*\s*\()', '', counts, 'N7_module_path')

    def derive(m):
        names = [x.strip() for x in m.group(1).split(',') if x.strip()]
        kept = [x for x in names if x in keep_derive]
        dropped = [x for x in names if x not in keep_derive]
        if dropped:
            counts['derive_dropped:' + ','.join(dropped)] = counts.get('derive_dropped:' + ','.join(dropped), 0) + 1
        return '#[derive(%s)]' % ', '.join(kept) if kept else ''
    text = re.sub(r'#\[derive\(([^)]*)\)\]', derive, text)
    if renames:
        for old, new in renames.items():
            text = _code_sub(text, r'(?<![\w.])' + re.escape(old) + r'(?=\s*\()', new, counts, 'N7_rename:%s->%s' % (old, new))
    return text


def _cnt(counts, key, val):
    counts[key] = counts.get(key, 0) + 1
    return val


# ----------------------------------------------------------------------------------------
# source index
# ----------------------------------------------------------------------------------------

class SourceIndex:
    def __init__(self, repo):
        self.repo = repo
        self.cache = {}
        self.n10 = []

    def load(self, rel):
        if rel not in self.cache:
            p = os.path.join(self.repo, rel)
            if not os.path.isfile(p):
                raise ExtractError('lost-anchor', 'source file %s not found' % rel)
            with open(p, encoding='utf-8') as f:
                text = f.read()
            text = self._expand_derive_partialeq(rel, text)
            try:
                items = rs.scan_items(text)
            except rs.ScanError as e:
                raise ExtractError('scan', '%s: %s' % (rel, e))
            self.cache[rel] = (text, items)
        return self.cache[rel]

    _DERIVE_STRUCT = re.compile(r'#\[derive\(([^)]*)\)\]\s*(?:#\[[^\]]*\]\s*)*pub\s+struct\s+(\w+)\s*\{([^{}]*)\}')

    def _expand_derive_partialeq(self, rel, text):
        """N10: a braced struct that derives PartialEq and has no hand-written `impl PartialEq for X` in the same file gets
        the impl the derive stands for appended to the scanned text: field-wise `==` in declaration order (the documented
        meaning of derive(PartialEq)). A contract that addresses `impl PartialEq for X` then sees the comparison the
        compiler generates instead of losing its anchor when a hand-written impl is replaced by a derive."""
        add = []
        for m in self._DERIVE_STRUCT.finditer(text):
            derives = [d.strip() for d in m.group(1).split(',')]
            name = m.group(2)
            if 'PartialEq' not in derives:
                continue
            if re.search(r'impl\s+PartialEq\s+for\s+%s\b' % re.escape(name), text):
                continue
            body = re.sub(r'//[^\n]*', '', m.group(3))
            fields = re.findall(r'(?:pub(?:\([^)]*\))?\s+)?(\w+)\s*:', body)
            if not fields:
                continue
            cmp_ = ' && '.join('self.%s == rhs.%s' % (f, f) for f in fields)
            add.append('\nimpl PartialEq for %s {\n    fn eq(&self, rhs: &Self) -> bool {\n        %s\n    }\n}\n' % (name, cmp_))
            self.n10.append('%s: derive(PartialEq) on %s expanded to field-wise eq over %s' % (rel, name, ', '.join(fields)))
        return text + ''.join(add)

    def find_item(self, rel, kind, name):
        text, items = self.load(rel)
        hits = [it for it in items if it.kind == kind and it.name == name and not it.cfg_test]
        if len(hits) != 1:
            raise ExtractError('lost-anchor', '%s: %d items match %s %s' % (rel, len(hits), kind, name))
        return text, hits[0]

    def find_impl(self, rel, header):
        text, items = self.load(rel)
        want = ' '.join(header.split())
        hits = [it for it in items if it.kind == 'impl' and it.name == want]
        if len(hits) != 1:
            raise ExtractError('lost-anchor', '%s: %d impl blocks match %r' % (rel, len(hits), want))
        return text, hits[0]

    def find_method(self, rel, header, name):
        text, items = self.load(rel)
        want = ' '.join(header.split())
        impls = [it for it in items if it.kind == 'impl' and it.name == want]
        found = []
        for impl in impls:
            inner = rs.scan_items(text, impl.body_open + 1, impl.end - 1)
            for it in inner:
                if it.kind == 'fn' and it.name == name and not it.cfg_test:
                    found.append((it, impl, inner))
        if len(found) != 1:
            raise ExtractError('lost-anchor', '%s: %d methods %s in %r' % (rel, len(found), name, header))
        it, impl, inner = found[0]
        return text, it, impl, inner


# ----------------------------------------------------------------------------------------
# function splicing
# ----------------------------------------------------------------------------------------

def _sig_body(text):
    """text is one fn item (attrs/comments + fn ...{...}). Returns (fn_kw_pos, body_open, body_close)."""
    i = 0
    n = len(text)
    fnpos = None
    while i < n:
        kind, a, b = rs.next_code(text, i)
        if kind != 'code':
            i = b
            continue
        if text[i] == '#' and text.startswith('#[', i):
            i = rs.match_close(text, i + 1) + 1
            continue
        m = re.match(r'fn\b', text[i:])
        if m and not rs._ident_before(text, i):
            fnpos = i
            break
        i += 1
    if fnpos is None:
        raise ExtractError('scan', 'no fn keyword')
    j = fnpos
    while j < n:
        kind, a, b = rs.next_code(text, j)
        if kind != 'code':
            j = b
            continue
        if text[j] in '([':
            j = rs.match_close(text, j) + 1
            continue
        if text[j] == '{':
            return fnpos, j, rs.match_close(text, j)
        if text[j] == ';':
            return fnpos, None, j
        j += 1
    raise ExtractError('scan', 'no body')


def splice_fn(ntext, spec, fname):
    """ntext: normalised fn item text. spec: dict(ret, spec_lines, loops{n:(iter,lines)}, entry, before[(anchor,lines)]).
    Returns list of (line, is_ghost_line) ; inline ghost is wrapped in sentinels."""
    fnpos, bopen, bclose = _sig_body(ntext)
    if bopen is None:
        raise ExtractError('scan', '%s has no body' % fname)
    edits = []  # (offset, text, priority)

    # --- return name
    if spec.get('ret'):
        sig = ntext[fnpos:bopen]
        # find '->' at depth 0
        j = fnpos
        arrow = None
        while j < bopen:
            kind, a, b = rs.next_code(ntext, j)
            if kind != 'code':
                j = b
                continue
            if ntext[j] in '([':
                j = rs.match_close(ntext, j) + 1
                continue
            if ntext.startswith('->', j):
                arrow = j
                break
            j += 1
        if arrow is None:
            raise ExtractError('lost-anchor', '%s: no return type to name' % fname)
        tstart = arrow + 2
        while ntext[tstart].isspace():
            tstart += 1
        mwhere = re.search(r'\bwhere\b', ntext[tstart:bopen])
        tend = tstart + mwhere.start() if mwhere else bopen
        while ntext[tend - 1].isspace():
            tend -= 1
        edits.append((tstart, G_OPEN + '(' + spec['ret'] + ': ' + G_CLOSE, 0))
        edits.append((tend, G_OPEN + ')' + G_CLOSE, 0))

    # --- requires / ensures between signature and body
    if spec.get('spec_lines'):
        edits.append((bopen, '\n' + '\n'.join('\x00G' + l for l in spec['spec_lines']) + '\n', 1))

    # --- entry hints
    if spec.get('entry'):
        edits.append((bopen + 1, '\n' + '\n'.join('\x00G' + l for l in spec['entry']), 2))

    # --- loops
    if spec.get('loops'):
        kws = rs.find_keyword_positions(ntext, bopen + 1, bclose, {'for', 'while', 'loop'})
        for n, (itername, lines) in spec['loops'].items():
            if n >= len(kws):
                raise ExtractError('lost-anchor', '%s: loop #%d not found (%d loops)' % (fname, n, len(kws)))
            pos, w = kws[n]
            j = pos
            lopen = None
            inpos = None
            while j < bclose:
                kind, a, b = rs.next_code(ntext, j)
                if kind != 'code':
                    j = b
                    continue
                if ntext[j] in '([':
                    j = rs.match_close(ntext, j) + 1
                    continue
                if ntext[j] == '{':
                    lopen = j
                    break
                if w == 'for' and inpos is None and re.match(r'in\b', ntext[j:]) and not rs._ident_before(ntext, j):
                    inpos = j + 2
                j += 1
            if lopen is None:
                raise ExtractError('lost-anchor', '%s: loop #%d has no body' % (fname, n))
            if itername:
                if inpos is None:
                    raise ExtractError('lost-anchor', '%s: loop #%d is not a for-in loop' % (fname, n))
                edits.append((inpos, ' ' + G_OPEN + itername + ':' + G_CLOSE, 0))
            edits.append((lopen, '\n' + '\n'.join('\x00G' + l for l in lines) + '\n', 1))
            body_lines = spec.get('loopbody', {}).get(n)
            if body_lines:
                edits.append((lopen + 1, '\n' + '\n'.join('\x00G' + l for l in body_lines), 2))

    # --- closure contracts: n-th closure literal in the body gets ` -> (r: T) requires/ensures ..` after its `|params|`
    if spec.get('closures'):
        cl = find_closures(ntext, bopen + 1, bclose)
        for n, lines in spec['closures'].items():
            if n >= len(cl):
                # a contract for a closure that no longer exists constrains nothing: skip it (the function's own contract still has
                # to be met by the new body); noted in the normalisation counts of the unit
                SKIPPED_CLOSURES.append('%s#%d' % (fname, n))
                continue
            pend = cl[n]
            j = pend
            while ntext[j].isspace():
                j += 1
            txt = ' ' + G_OPEN + ' '.join(l.strip() for l in lines) + ' ' + G_CLOSE
            if ntext[j] != '{':
                # expression body: wrap it in (ghost) braces; it ends at the `)` or `,` that closes the argument
                k = j
                while k < bclose:
                    kind, a, b2 = rs.next_code(ntext, k)
                    if kind != 'code':
                        k = b2
                        continue
                    if ntext[k] in '([{':
                        k = rs.match_close(ntext, k) + 1
                        continue
                    if ntext[k] in '),;':
                        break
                    k += 1
                kk = k
                while ntext[kk - 1].isspace():
                    kk -= 1
                edits.append((kk, G_OPEN + ' }' + G_CLOSE, 0))
                txt = txt + G_OPEN + '{ ' + G_CLOSE
            edits.append((pend, txt, 0))

    # --- statement anchors (line based)
    for anchor, lines, where in spec.get('anchors', []):
        # candidate line starts inside the body
        hits = []
        off = bopen + 1
        for ln in ntext[bopen + 1:bclose].split('\n'):
            if ln.strip().startswith(anchor):
                hits.append(off)
            off += len(ln) + 1
        mo = re.match(r'^(.*)\s#(\d+)$', anchor)
        if mo:
            # "<text> #k": the k-th line starting with <text>
            hits = []
            off = bopen + 1
            for ln in ntext[bopen + 1:bclose].split('\n'):
                if ln.strip().startswith(mo.group(1)):
                    hits.append(off)
                off += len(ln) + 1
            k = int(mo.group(2))
            if k >= len(hits):
                raise ExtractError('lost-anchor', '%s: anchor %r: only %d matching lines' % (fname, anchor, len(hits)))
            hits = [hits[k]]
        if len(hits) != 1:
            raise ExtractError('lost-anchor', '%s: anchor %r matches %d lines' % (fname, anchor, len(hits)))
        if where == 'before':
            edits.append((hits[0], '\n'.join('\x00G' + l for l in lines) + '\n', 3))
        else:  # after: end of that line (the statement must end on the same line)
            eol = ntext.find('\n', hits[0])
            edits.append((eol, '\n' + '\n'.join('\x00G' + l for l in lines), 3))

    out = ntext
    for off, txt, _p in sorted(edits, key=lambda e: (-e[0], -e[2])):
        out = out[:off] + txt + out[off:]
    res = []
    for ln in out.split('\n'):
        if ln.startswith('\x00G'):
            res.append((ln[2:], True))
        else:
            res.append((ln, False))
    return res


SKIPPED_CLOSURES = []


def find_closures(s, start, end):
    """Offsets just after the closing `|` of each closure parameter list in s[start:end], in source order."""
    out = []
    i = start
    prev = '{'      # previous significant code char
    prevword = ''
    while i < end:
        kind, a, b = rs.next_code(s, i, end)
        if kind in ('ws', 'comment'):
            i = b
            continue
        if kind in ('string', 'char'):
            prev = 'x'
            prevword = ''
            i = b
            continue
        c = s[i]
        if c.isalnum() or c == '_':
            m = re.match(r'\w+', s[i:end])
            prevword = m.group(0)
            prev = 'x'
            i += len(prevword)
            continue
        if c == '|' and (prev in '(,={;' or prevword in ('move', 'return')) and not s.startswith('|=', i):
            if s.startswith('||', i):
                out.append(i + 2)
                i += 2
            else:
                j = i + 1
                while j < end and s[j] != '|':
                    if s[j] in '([':
                        j = rs.match_close(s, j)
                    j += 1
                out.append(j + 1)
                i = j + 1
            prev = 'x'
            prevword = ''
            continue
        prev = c
        prevword = ''
        i += 1
    return out


def strip_ghost(lines):
    """lines: [(text, is_ghost)] -> exec-only text with inline ghost removed."""
    txt = '\n'.join(t for t, g in lines if not g)
    return re.sub(re.escape(G_OPEN) + r'.*?' + re.escape(G_CLOSE), '', txt, flags=re.S)


def _ws(s):
    return re.sub(r'\s+', '', s)


# ----------------------------------------------------------------------------------------
# template processing
# ----------------------------------------------------------------------------------------

class Built:
    def __init__(self):
        self.lines = []      # output lines
        self.origin = []     # per line: dict
        self.items = []      # extracted items (for evidence)
        self.counts = {}     # normalisation hit counts
        self.fns = {}        # out fn name -> dict(props, expect_fail, first_line, last_line, src)
        self.assumptions = []
        self.assumed = []    # fns whose contract is assumed here (proved in another unit)


def _read_template(path, variant, seen=None, assumed=False, only=None):
    """Expands //@include, //@assume and //@if; returns list of (line, file, lineno, assumed).
    `//@assume f` keeps only the //@fn / //@implopen / //@implclose / //@item / //@rename blocks of f and marks
    them assumed: the function is emitted as signature + contract with an external body (proved in another unit)."""
    seen = seen if seen is not None else set()
    out = []
    base = os.path.dirname(path)
    with open(path, encoding='utf-8') as f:
        raw = f.read().split('\n')
    active = [True]
    for no, ln in enumerate(raw, 1):
        st = ln.strip()
        if st.startswith('//@if '):
            conds = st[6:].split()
            active.append(active[-1] and (variant in conds))
            continue
        if st == '//@else':
            prev = active.pop()
            active.append(active[-1] and not prev)
            continue
        if st == '//@endif':
            active.pop()
            continue
        if not active[-1]:
            continue
        if st.startswith('//@include ') or st.startswith('//@assume '):
            parts = st.split()
            inc = os.path.normpath(os.path.join(CONTRACTS, parts[1].strip()))
            only = None
            for extra in parts[2:]:
                if extra.startswith('only='):
                    only = set(extra[5:].split(','))
            if inc in seen:
                continue
            seen.add(inc)
            sub = _read_template(inc, variant, seen, assumed or st.startswith('//@assume '), only=only)
            out.extend(sub)
            continue
        out.append((ln, path, no, assumed))
    if assumed:
        # keep only directive blocks
        kept = []
        infn = False
        skipfn = False
        for t in out:
            st = t[0].strip()
            if t[3] is False:
                kept.append(t)
                continue
            if st.startswith('//@fn '):
                infn = True
                if only is not None:
                    # `//@assume f only=a,b`: keep only the contracts of the named functions (output name: as= if given)
                    p_, k_ = _parse_args(st[6:])
                    nm = k_.get('as') or p_[-1]
                    skipfn = nm not in only
                else:
                    skipfn = False
            if infn and skipfn:
                if st == '//@end':
                    infn = False
                continue
            if infn or st.startswith('//@implopen') or st.startswith('//@implclose') or st.startswith('//@rename'):
                kept.append(t)
            if st == '//@end':
                infn = False
        out = kept
    return out


_DIR = re.compile(r'^\s*//@(\w[\w-]*)\s*(.*)$')


def _parse_args(rest):
    """tokens with "quoted strings" and key=value."""
    toks = re.findall(r'"[^"]*"|`[^`]*`|\S+', rest)
    pos, kw = [], {}
    for t in toks:
        if t.startswith('"') or t.startswith('`'):
            pos.append(t[1:-1])
        elif '=' in t and not t.startswith('='):
            k, v = t.split('=', 1)
            kw[k] = v
        else:
            pos.append(t)
    return pos, kw


def build_unit(template, repo, variant='A'):
    b = _build_unit(template, repo, variant)
    for x in SKIPPED_CLOSURES:
        b.counts['closure_contract_skipped_closure_no_longer_exists:' + x] = 1
    return b


def _build_unit(template, repo, variant='A'):
    del SKIPPED_CLOSURES[:]
    idx = SourceIndex(repo)
    b = Built()
    tl = _read_template(template, variant)
    i = 0
    n = len(tl)
    renames = {}
    impl_ctx = None  # (rel, header)
    pending_subst = []
    impl_assoc = {}

    def emit(text, origin):
        for ln in text.split('\n'):
            b.lines.append(ln)
            b.origin.append(origin)

    while i < n:
        ln, tf, tno, is_assumed = tl[i]
        m = _DIR.match(ln)
        if not m:
            if re.match(r'^\s*(pub\s+)?(broadcast\s+)?proof\s+fn\b', ln) and not (b.lines and 'nospin' in b.lines[-1]):
                emit('#[verifier::spinoff_prover]', {'k': 'tmpl', 'f': os.path.basename(tf), 'l': tno})
            emit(ln, {'k': 'tmpl', 'f': os.path.basename(tf), 'l': tno})
            i += 1
            continue
        d, rest = m.group(1), m.group(2)
        pos, kw = _parse_args(rest)
        if d == 'rename':
            renames[pos[0]] = pos[1]
            i += 1
            continue
        if d == 'subst-re':
            # //@subst-re "<regex>" "<replacement>" [n=k|*] : like //@subst, the old text given as a regular expression
            pending_subst.append((re.compile(pos[0]), pos[1], kw.get('n', '1')))
            i += 1
            continue
        if d == 'subst':
            pending_subst.append((pos[0], pos[1], kw.get('n', '1')))
            i += 1
            continue
        if d == 'item':
            rel, kind, name = pos[0], pos[1], pos[2]
            text, it = idx.find_item(rel, kind, name)
            raw = text[it.start:it.end]
            c = {}
            keep = tuple(kw.get('derive', 'Clone,Copy').split(','))
            nt = normalise(raw, c, renames, keep_derive=keep)
            if kw.get('pubfields') and kind == 'struct':
                nt, k = re.subn(r'(?m)^(\s+)(?!pub\b)(\w+\s*:)', r'\1pub \2', nt)
                c['N1_private_fields_made_pub'] = k
                if not re.search(r'(?m)^\s*pub\s+struct\b', nt):
                    nt = re.sub(r'(?m)^(\s*)struct\b', r'\1pub struct', nt, count=1)
                    c['N1_private_item_made_pub'] = 1
            _merge(b.counts, c)
            b.items.append({'kind': kind, 'name': name, 'file': rel, 'sha256': hashlib.sha256(raw.encode()).hexdigest(),
                            'line': text.count('\n', 0, it.hstart) + 1})
            emit(nt.strip('\n'), {'k': 'src', 'f': rel, 'item': name})
            i += 1
            continue
        if d == 'implopen':
            rel, header = pos[0], pos[1]
            impl_ctx = (rel, header)
            if 'inherent' not in kw and 'plain' not in kw:
                text, impl = idx.find_impl(rel, header)
            if 'plain' in kw:
                emit(header + ' {', {'k': 'src', 'f': rel, 'item': header})
            elif 'inherent' in kw:
                # N6: associated types of the trait impl are substituted into the method signatures
                text, items_ = idx.load(rel)
                want = ' '.join(header.split())
                assoc = {}
                for im in items_:
                    if im.kind == 'impl' and im.name == want:
                        for it in rs.scan_items(text, im.body_open + 1, im.end - 1):
                            if it.kind == 'type':
                                mm = re.match(r'type\s+(\w+)\s*=\s*(.*)$', it.header)
                                if mm:
                                    assoc[mm.group(1)] = mm.group(2).strip()
                impl_assoc = assoc
                emit('impl %s {' % kw['inherent'], {'k': 'tmpl', 'f': os.path.basename(tf), 'l': tno})
                b.counts['N6_trait_impl_to_inherent'] = b.counts.get('N6_trait_impl_to_inherent', 0) + 1
            else:
                emit(header + ' {', {'k': 'src', 'f': rel, 'item': header})
                # associated types / consts verbatim
                inner = rs.scan_items(text, impl.body_open + 1, impl.end - 1)
                for it in inner:
                    if it.kind in ('type', 'const'):
                        emit('    ' + normalise(text[it.hstart:it.end], b.counts, renames), {'k': 'src', 'f': rel, 'item': header})
            i += 1
            continue
        if d == 'implclose':
            emit('}', {'k': 'tmpl', 'f': os.path.basename(tf), 'l': tno})
            impl_ctx = None
            impl_assoc = {}
            i += 1
            continue
        if d == 'fn':
            # //@fn <rel> <name> [as=<new>] [props=..] [expect-fail=..] [pub=1]   (inside implopen: //@fn <name> ...)
            if impl_ctx is not None and len(pos) == 1:
                rel, header = impl_ctx
                name = pos[0]
                text, it, impl, _inner = idx.find_method(rel, header, name)
            elif len(pos) == 3:
                rel, header, name = pos
                text, it, impl, _inner = idx.find_method(rel, header, name)
            else:
                rel, name = pos[0], pos[1]
                header = None
                text, it = idx.find_item(rel, 'fn', name)
            outname = kw.get('as', name)
            if kw.get('assumed') and variant in kw['assumed'].split(','):
                is_assumed = True
            spec = {'ret': None, 'spec_lines': [], 'loops': {}, 'entry': [], 'anchors': [], 'closures': {}, 'attrs': [], 'loopbody': {}}
            section = None
            i += 1
            start_tno = tno
            while i < n:
                l2, tf2, tno2, _a2 = tl[i]
                m2 = _DIR.match(l2)
                if m2:
                    d2, rest2 = m2.group(1), m2.group(2)
                    p2, k2 = _parse_args(rest2)
                    if d2 == 'end':
                        i += 1
                        break
                    if d2 == 'ret':
                        spec['ret'] = p2[0]
                        section = None
                    elif d2 == 'spec':
                        section = spec['spec_lines']
                    elif d2 == 'entry':
                        section = spec['entry']
                    elif d2 == 'loop':
                        lines = []
                        spec['loops'][int(p2[0])] = (k2.get('iter'), lines)
                        section = lines
                    elif d2 == 'loopbody':
                        lines = []
                        spec['loopbody'][int(p2[0])] = lines
                        section = lines
                    elif d2 == 'attr':
                        spec['attrs'].append(rest2.strip())
                        section = None
                    elif d2 == 'closure':
                        lines = []
                        spec['closures'][int(p2[0])] = lines
                        section = lines
                    elif d2 in ('before', 'after'):
                        lines = []
                        spec['anchors'].append((p2[0], lines, d2))
                        section = lines
                    else:
                        raise ExtractError('template', '%s:%d unknown directive %s in fn' % (tf2, tno2, d2))
                else:
                    if section is None:
                        if l2.strip():
                            raise ExtractError('template', '%s:%d text outside a section' % (tf2, tno2))
                    else:
                        section.append(l2)
                i += 1
            raw = text[it.start:it.end]
            c = {}
            local_ren = dict(renames)
            nt = normalise(raw, c, local_ren, keep_fmt=bool(kw.get('fmt')), cfg=kw.get('cfg'))
            for old_t, new_t, want_n in pending_subst:
                is_re = not isinstance(old_t, str)
                k = len(old_t.findall(nt)) if is_re else nt.count(old_t)
                if (want_n == '*' and k < 1) or (want_n != '*' and k != int(want_n)):
                    raise ExtractError('lost-anchor', '%s: operator text %r occurs %d times' % (name, old_t.pattern if is_re else old_t, k))
                nt = old_t.sub(new_t, nt) if is_re else nt.replace(old_t, new_t)
                if is_re:
                    old_t = old_t.pattern
                c['N8_operator_desugared:%s=>%s' % (old_t, new_t)] = k
            pending_subst = []
            if impl_ctx is not None:
                for an, at in impl_assoc.items():
                    nt, k = re.subn(r'\bSelf::' + an + r'\b', at, nt)
                    if k:
                        c['N6_assoc_type_substituted'] = c.get('N6_assoc_type_substituted', 0) + k
            if outname != name:
                nt = re.sub(r'\bfn\s+' + re.escape(name) + r'\b', 'fn ' + outname, nt, count=1)
                c['fn_renamed_for_second_contract'] = 1
            if kw.get('pub') and not re.match(r'\s*(#\[[^\]]*\]\s*)*pub\b', nt.lstrip()):
                nt = re.sub(r'\bfn\b', 'pub fn', nt, count=1)
                c['N6_pub_added_to_trait_method'] = 1
            _merge(b.counts, c)
            if is_assumed:
                spec['entry'] = []
                spec['loops'] = {}
                spec['anchors'] = []
                spec['closures'] = {}
                spec['loopbody'] = {}
                fnpos, bopen, bclose = _sig_body(nt)
                nt = nt[:bopen] + '{ unimplemented!() }'
            spliced = splice_fn(nt, spec, outname)
            # self-check: exec-only view of the spliced text == normalised original
            if _ws(strip_ghost(spliced)) != _ws(nt):
                raise ExtractError('self-check', 'splicing changed executable text of %s' % name)
            first = len(b.lines) + 1
            src_line = text.count('\n', 0, it.hstart) + 1
            if is_assumed:
                b.lines.append('#[verifier::external_body]')
                b.origin.append({'k': 'ghost', 'f': rel, 'fn': outname, 'tl': start_tno})
                b.assumed.append(outname)
            elif not kw.get('nospinoff'):
                b.lines.append('#[verifier::spinoff_prover]')
                b.origin.append({'k': 'ghost', 'f': rel, 'fn': outname, 'tl': start_tno})
            if not is_assumed:
                for at in spec['attrs']:
                    b.lines.append(at)
                    b.origin.append({'k': 'ghost', 'f': rel, 'fn': outname, 'tl': start_tno})
            for t, g in spliced:
                b.lines.append(t)
                b.origin.append({'k': 'ghost' if g else 'src', 'f': rel, 'fn': outname, 'tl': start_tno})
            last = len(b.lines)
            fkey = outname
            dup = 1
            while fkey in b.fns:
                dup += 1
                fkey = '%s@%d' % (outname, dup)
            b.fns[fkey] = {'props': [] if is_assumed else [p for p in kw.get('props', '').split(',') if p], 'assumed': is_assumed, 'expect_fail': kw.get('expect-fail'),
                              'first': first, 'last': last, 'file': rel, 'src_name': name, 'impl': header,
                              'src_line': src_line, 'sha256': hashlib.sha256(raw.encode()).hexdigest()}
            b.items.append({'kind': 'fn', 'name': (header + '::' if header else '') + name, 'as': outname, 'file': rel,
                            'line': src_line, 'sha256': hashlib.sha256(raw.encode()).hexdigest()})
            continue
        if d == 'ghostfn':
            # names a proof/exec function written in the template so that its failures are attributed:
            # //@ghostfn <name> props=C01 [expect-fail=id]
            b.fns.setdefault(pos[0], {'props': [p for p in kw.get('props', '').split(',') if p],
                                      'expect_fail': kw.get('expect-fail'), 'first': None, 'last': None, 'file': None,
                                      'src_name': None, 'impl': None, 'ghost': True})
            i += 1
            continue
        if d == 'trusted':
            b.assumptions.append(rest.strip())
            i += 1
            continue
        raise ExtractError('template', '%s:%d unknown directive %s' % (tf, tno, d))
    if idx.n10:
        b.counts['N10_derive_partialeq_expanded'] = len(idx.n10)
        for t in idx.n10:
            b.assumptions.append('N10 ' + t + ' (documented meaning of derive(PartialEq))')
    return b


def _merge(a, c):
    for k, v in c.items():
        a[k] = a.get(k, 0) + v


def main():
    import argparse
    ap = argparse.ArgumentParser()
    ap.add_argument('template')
    ap.add_argument('--repo', default='/repo')
    ap.add_argument('--variant', default='A')
    ap.add_argument('-o', '--out', required=True)
    a = ap.parse_args()
    try:
        b = build_unit(a.template, a.repo, a.variant)
    except ExtractError as e:
        print("UNDECIDED extract %s" % e)
        sys.exit(2)
    with open(a.out, 'w') as f:
        f.write('\n'.join(b.lines) + '\n')
    with open(a.out + '.map.json', 'w') as f:
        json.dump({'origin': b.origin, 'fns': b.fns, 'items': b.items, 'counts': b.counts}, f)
    print("built %s: %d lines, %d items" % (a.out, len(b.lines), len(b.items)))


if __name__ == '__main__':
    main()
