#!/bin/sh
# usage: confirm_seed.sh <worktree> <seed-dir> <seeded-id> : confirms a seeded change and stores it under /verif/seeded/<id>
wt=$1; d=$2; id=$3
cd "$wt" || exit 9
git checkout -q -- . ; git clean -fdq tests
git apply "$d/patch.diff" || { echo "patch does not apply"; exit 9; }
suite=$(cargo test --workspace --offline --lib --tests 2>&1 | grep -E 'test result|FAILED|panicked at' )
echo "$suite" | grep -q -E 'FAILED|failed;[^0]*[1-9][0-9]* failed' && suite_ok=no || suite_ok=yes
echo "$suite" | grep -E 'test result' | awk '{p+=$4; f+=$6} END {print "suite with change: passed=" p " failed=" f}'
cp "$d/demo.rs" tests/seed_demo.rs
cargo test --offline --test seed_demo >/tmp/seed_demo_mut.log 2>&1 && demo_mut=pass || demo_mut=fail
git checkout -q -- .
cargo test --offline --test seed_demo >/tmp/seed_demo_clean.log 2>&1 && demo_clean=pass || demo_clean=fail
rm -f tests/seed_demo.rs
echo "suite_ok_with_change=$suite_ok demo_with_change=$demo_mut demo_without_change=$demo_clean"
if [ "$suite_ok" = yes ] && [ "$demo_mut" = fail ] && [ "$demo_clean" = pass ]; then
  mkdir -p /verif/seeded/$id && cp "$d/patch.diff" "$d/demo.rs" /verif/seeded/$id/ && cp "$d/meta.json" /verif/seeded/$id/meta.agent.json && echo CONFIRMED $id
else
  echo REJECTED $id
fi
