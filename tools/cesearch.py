#!/usr/bin/env python3
"""Counterexample search after a failed obligation: differential execution of the public API on /repo's git HEAD
(where every contract is proved) and on /repo's working tree. An input on which they disagree is a concrete failing
input for a functional contract. Best effort: returns None when /repo has no uncommitted change, the property has no
battery, or nothing is found in the budget."""
import json
import os
import shutil
import subprocess

HERE = os.path.dirname(os.path.abspath(__file__))
VERIF = os.path.dirname(HERE)
BATTERY = {'C01': 'C01', 'C02': 'C02', 'C03': 'C03', 'C04': 'C04', 'C05': 'C05', 'C06': 'C06', 'C07': 'C07', 'C08': 'C08',
           'C09': 'C09', 'C10': 'C10', 'C15': 'C15', 'C11': 'C11', 'C17': 'C17', 'C18': 'C18', 'C19': 'C19'}
_CACHE = {}


def build(repo, scratch):
    """Builds the search binary for (HEAD of repo, working tree of repo); returns its path or None."""
    if not os.path.isdir(os.path.join(repo, '.git')) and not os.path.isfile(os.path.join(repo, '.git')):
        return None
    if subprocess.run(['git', '-C', repo, 'diff', '--quiet', 'HEAD', '--', 'src', 'Cargo.toml']).returncode == 0:
        return None
    root = os.path.join(scratch, 'cesearch')
    head = os.path.join(root, 'head')
    ce = os.path.join(root, 'ce')
    shutil.rmtree(root, ignore_errors=True)
    os.makedirs(head)
    os.makedirs(ce)
    ar = subprocess.run(['git', '-C', repo, 'archive', 'HEAD'], capture_output=True)
    if ar.returncode != 0:
        return None
    subprocess.run(['tar', '-x', '-C', head], input=ar.stdout, check=True)
    p = os.path.join(head, 'Cargo.toml')
    s = open(p).read().replace('name = "astrolabe"', 'name = "astrolabe-head"', 1)
    open(p, 'w').write(s)
    shutil.copytree(os.path.join(VERIF, 'cesearch', 'src'), os.path.join(ce, 'src'))
    t = open(os.path.join(VERIF, 'cesearch', 'Cargo.toml.in')).read().replace('@WORK@', repo).replace('@HEAD@', head)
    open(os.path.join(ce, 'Cargo.toml'), 'w').write(t)
    b = subprocess.run(['cargo', 'build', '--release', '--offline', '-q'], cwd=ce, env=dict(os.environ, CARGO_NET_OFFLINE='true'),
                       capture_output=True, text=True, timeout=900)
    exe = os.path.join(ce, 'target', 'release', 'astrolabe-verif-cesearch')
    return exe if b.returncode == 0 and os.path.exists(exe) else None


def search(prop, run, err, scratch, tier, repo=None):
    import driver
    repo = repo or driver.REPO
    bat = BATTERY.get(prop)
    if not bat:
        return None
    key = (repo, scratch)
    if key not in _CACHE:
        _CACHE[key] = build(repo, scratch)
    exe = _CACHE[key]
    if not exe:
        return None
    count = '300000' if tier == 'quick' else '6000000'
    seed = os.environ.get('VERIF_SEED', '1') or '1'
    for sd in (seed, str(int(seed) + 7)):
        try:
            p = subprocess.run([exe, bat, sd, count if bat not in ('C17', 'C18', 'C19') else str(int(count) // 10)], capture_output=True, text=True, timeout=300)
        except subprocess.TimeoutExpired:
            return None
        line = p.stdout.strip().split('\n')[-1] if p.stdout.strip() else ''
        if line.startswith('{'):
            j = json.loads(line)
            return {'inputs': {'battery': bat, 'case': j['case'], 'result_at_HEAD': j['head'], 'result_on_working_tree': j['work']},
                    'ce_source': 'differential execution of the public API: /repo git HEAD (contracts proved) vs /repo working tree; '
                                 'the case is the six integers of cesearch/src/main.rs::Case for this battery',
                    'replay_how': './check --replay <this file> rebuilds both and prints the two results for the case'}
    return None


def replay_case(rec, scratch):
    import driver
    exe = build(driver.REPO, scratch)
    if not exe:
        print('counterexample replay: /repo has no uncommitted change against HEAD (or is not a git tree); recorded results:')
        print(json.dumps(rec['inputs'], indent=1))
        return
    c = rec['inputs']
    p = subprocess.run([exe, 'case', c['battery']] + [str(x) for x in c['case']], capture_output=True, text=True, timeout=120)
    print('counterexample replay on the real code, case %s:' % c['case'])
    print(p.stdout.strip())
