#!/usr/bin/env python3
"""Kani engine for C11: per (symbol, width) loop-free harnesses with recording stubs (DESIGN 5 C11).
Runs on a scratch copy of /repo's working tree with the harness module injected under #[cfg(kani)]."""
import json
import os
import re
import shutil
import subprocess
import sys
import time

HERE = os.path.dirname(os.path.abspath(__file__))
VERIF = os.path.dirname(HERE)
REPO = os.environ.get('VERIF_REPO', '/repo')
SCRATCH_ROOT = os.environ.get('VERIF_SCRATCH', '/root/.cache/astrolabe-verif')

QUICK_ROWS = (['fmt_%s_%d' % (sym, w) for sym in ('h', 'hh24', 'kk', 'k24', 'm', 'd', 'w') for w in (1, 2, 3)]
              + ['fmt_doy_%d' % w for w in (1, 2, 3, 4)] + ['fmt_y_%d' % w for w in (1, 3, 4, 5, 6)]
              + ['fmt_mon_1', 'fmt_mon_2', 'fmt_q_1', 'fmt_q_2', 'fmt_q_5', 'fmt_e_1', 'fmt_e_2', 'fmt_e_7', 'fmt_e_8', 'fmt_e_9']
              + ['fmt_zX_%d' % w for w in (1, 2, 3, 4, 5, 6)] + ['fmt_zx_%d' % w for w in (1, 2, 3, 4, 5, 6)]
              + ['fmt_a_%d' % w for w in (1, 3, 4, 5, 6)] + ['fmt_b_%d' % w for w in (1, 3, 4, 5, 6)] + ['fmt_G_%d' % w for w in (1, 4, 5, 6)]
              + ['fmt_mon_3', 'fmt_mon_4', 'fmt_mon_5', 'fmt_mon_6', 'fmt_e_3', 'fmt_e_4', 'fmt_e_5', 'fmt_e_6']
              + ['fmt_dispatch_%s' % x for x in ('h', 'Hu', 'Ku', 'k', 'm', 'd', 'w', 'Du', 'y', 'Mu', 'q', 'e')])


def all_rows():
    rows = []
    for ln in open(os.path.join(VERIF, 'kani', 'harness_fmt_rows.rs')):
        m = re.match(r'\w+!\((\w+),', ln)
        if m:
            rows.append(m.group(1))
    return rows


def prepare(scratch):
    dst = os.path.join(scratch, 'repo')
    os.makedirs(dst, exist_ok=True)
    subprocess.run(['rsync', '-a', '--delete', '--exclude', 'target', '--exclude', '.git', REPO + '/', dst + '/'], check=True)
    lib = os.path.join(dst, 'src', 'lib.rs')
    with open(lib, 'a') as f:
        f.write('\n#[cfg(kani)]\n#[path = "%s/kani/harness_fmt.rs"]\nmod verif_harness_fmt;\n' % VERIF)
    os.makedirs(os.path.join(dst, '.cargo'), exist_ok=True)
    with open(os.path.join(dst, '.cargo', 'config.toml'), 'a') as f:
        f.write('\n[net]\noffline = true\n')
    return dst


def parse(out):
    """-> {harness: {'checks': [(id, status, desc, loc)], 'verdict': str, 'time': float, 'stubs': [..]}}"""
    res = {}
    cur = None
    chk = None
    for ln in out.split('\n'):
        m = re.match(r'Checking harness (?:\w+::)*(\w+)\.\.\.', ln)
        if m:
            cur = res.setdefault(m.group(1), {'checks': [], 'verdict': None, 'time': None, 'stubs': []})
            chk = None
            continue
        if cur is None:
            continue
        m = re.match(r'\s*- Stub: (.*)', ln)
        if m:
            cur['stubs'].append(m.group(1).replace(' ', ''))
            continue
        m = re.match(r'Check \d+: (.*)', ln)
        if m:
            chk = [m.group(1), None, '', '']
            cur['checks'].append(chk)
            continue
        if chk is not None:
            m = re.match(r'\s*- Status: (\w+)', ln)
            if m:
                chk[1] = m.group(1)
                continue
            m = re.match(r'\s*- Description: "(.*)"', ln)
            if m:
                chk[2] = m.group(1)
                continue
            m = re.match(r'\s*- Location: (.*)', ln)
            if m:
                chk[3] = m.group(1)
                continue
        m = re.match(r'VERIFICATION:- (\w+)', ln)
        if m:
            cur['verdict'] = m.group(1)
        m = re.match(r'Verification Time: ([\d.]+)s', ln)
        if m:
            cur['time'] = float(m.group(1))
    return res


def relevant(chk):
    loc = chk[3]
    return 'harness_fmt' in loc or loc.startswith('src/')


def run(prop, tier, seed):
    t0 = time.time()
    scratch = os.path.join(SCRATCH_ROOT, '%s-%d' % (prop, os.getpid()))
    rows = all_rows() if tier == 'thorough' else [r for r in QUICK_ROWS if r in all_rows()]
    undecided, violations, ok_rows, samples = [], [], [], []
    try:
        env = dict(os.environ, CARGO_NET_OFFLINE='true')
        import concurrent.futures as cf
        groups = [rows[i::8] for i in range(8)]
        groups = [g for g in groups if g]

        def run_group(idx_g):
            idx, g = idx_g
            d = prepare(os.path.join(scratch, 'g%d' % idx))
            cmd = ['cargo', 'kani', '-Z', 'stubbing', '--output-format', 'regular']
            for r in g:
                cmd += ['--harness', r]
            try:
                p = subprocess.run(cmd, cwd=d, env=env, capture_output=True, text=True, timeout=3000)
                return p.stdout + '\n' + p.stderr
            except subprocess.TimeoutExpired:
                return 'TIMEOUT'
        with cf.ThreadPoolExecutor(max_workers=8) as ex:
            outs = list(ex.map(run_group, list(enumerate(groups))))
        if any(o == 'TIMEOUT' for o in outs):
            undecided.append('cargo kani timed out')
        out = '\n'.join(outs)
        dst = os.path.join(scratch, 'g0', 'repo')
        res = parse(out)
        if not res and not undecided:
            undecided.append('cargo kani produced no harness results: ' + out[-1500:])
        for r in rows:
            h = res.get(r)
            if h is None:
                undecided.append('row %s: no result' % r)
                continue
            need = {'alloc::fmt::format->fmt_stub', 'crate::util::format::zero_padded->zp_stub'}
            if not need.issubset(set(h['stubs'])):
                undecided.append('row %s: stubs not resolved (%s)' % (r, h['stubs']))
                continue
            mine = [c for c in h['checks'] if relevant(c)]
            row_assert = [c for c in mine if ('.%s.assertion' % r) in c[0] or 'assertion failed' in c[2]]
            if not row_assert:
                undecided.append('row %s: the row assertion was not among the checks' % r)
                continue
            bad = [c for c in mine if c[1] == 'FAILURE']
            und = [c for c in mine if c[1] not in ('SUCCESS', 'FAILURE', 'UNREACHABLE')]
            if bad:
                violations.append((r, bad[0]))
            elif und:
                undecided.append('row %s: %s is %s' % (r, und[0][0], und[0][1]))
            else:
                ok_rows.append((r, h['time'], len(mine)))
        # counterexample for the first failing rows
        out_lines = []
        os.makedirs(os.path.join(VERIF, 'replays'), exist_ok=True)
        for r, c in violations[:5]:
            rp = os.path.join(VERIF, 'replays', '%s-kani-%s.json' % (prop, r))
            rec = {'property': prop, 'obligation': 'kani row %s: %s' % (r, c[2]), 'function': 'util::format (row %s)' % r,
                   'failed_check': c[0], 'location': c[3], 'inputs': None}
            try:
                p2 = subprocess.run(['cargo', 'kani', '-Z', 'stubbing', '-Z', 'concrete-playback', '--concrete-playback=print', '--harness', r],
                                    cwd=dst, env=env, capture_output=True, text=True, timeout=600)
                m = re.search(r'Concrete playback unit test for `[^`]*`:\s*```(.*?)```', p2.stdout, re.S)
                if m:
                    rec['inputs'] = m.group(1).strip()
                    rec['replay_how'] = 'the printed #[test] replays the harness on the real crate with these bytes (kani::concrete_playback_run)'
            except Exception as e:  # best effort
                rec['ce_search_error'] = repr(e)
            json.dump(rec, open(rp, 'w'), indent=1)
            out_lines.append('VIOLATION property=%s replay=%s%s' % (prop, rp, '' if rec['inputs'] else ' no-failing-input-found'))
            samples.append({'failed_row': r, 'check': c[2]})
    finally:
        shutil.rmtree(scratch, ignore_errors=True)
    wall = time.time() - t0
    for r, tm, n in ok_rows[:6]:
        samples.append({'row': r, 'solver_s': tm, 'checks_judged': n, 'status': 'row assertion and all src/ checks SUCCESS'})
    ev = {
        'property_id': prop, 'tier': tier, 'seed': seed, 'level': 'other',
        'coverage': {
            'explanation': 'per (symbol, width) one loop-free Kani harness calls the real format_date_part / format_time_part with the concrete '
                           'pattern part and full-domain symbolic days / nanoseconds / offset; zero_padded, zero_padded_i and alloc::fmt::format '
                           'are replaced by recording stubs (-Z stubbing) and the calendar getters by arbitrary in-range values, and the row '
                           'assertion states which value is rendered at which width in which order. Complete per row (no loop, no bound); '
                           'quick tier leaves out the s rows (about 200 s each; they run in the thorough tier). Outside the rows: rendered digits, the sign / colon / Q / ordinal glue produced by format!, yy, qqq/qqqq and the n rows '
                           '(decided by the Verus unit fmt of this check instead); the tokenizer and the assembly in format() (not covered by either engine).',
            'evaluations': len(rows), 'distinct_nontrivial': len(ok_rows),
            'rule': 'one evaluation = one harness (symbol x width); non-trivial = the row assertion and every check located in src/ or the harness is SUCCESS',
            'samples': samples or [{'note': 'no rows'}],
            'rows_ok': [r for r, _, _ in ok_rows], 'row_solver_s': {r: t for r, t, _ in ok_rows}, 'undecided': undecided,
            'back_end': 'kani 0.68 -> cbmc 6.11 -> cadical', 'bounds': 'none (loop-free rows); unwind 4 only covers the 1-3 iteration loops of the recording stubs',
            'ignored_checks': 'checks located in std / kani_lib.c (the String::new() returned by the format stub trips __rust_dealloc checks)',
            'solver_s_total': sum((t or 0) for _, t, _ in ok_rows),
        },
        'assumptions': ['Kani/CBMC/CaDiCaL trusted', 'stubs: zero_padded, zero_padded_i, alloc::fmt::format record (value,width) and return an empty String',
                        'days_to_date/days_to_doy/days_to_wday/days_to_wyear replaced by arbitrary in-range values (their correctness is C01/C02)'],
        'wall_s': round(wall, 2), 'violations': len(violations),
    }
    os.makedirs(os.path.join(VERIF, 'evidence'), exist_ok=True)
    json.dump(ev, open(os.path.join(VERIF, 'evidence', prop + '.json'), 'w'), indent=1)
    for l in out_lines:
        print(l)
    if violations:
        return 1
    if undecided:
        for u in undecided[:10]:
            print('UNDECIDED property=%s %s' % (prop, u))
        return 2
    print('OK property=%s rows=%d all row assertions hold wall=%.1fs' % (prop, len(ok_rows), wall))
    return 0


if __name__ == '__main__':
    sys.exit(run('C11', sys.argv[1] if len(sys.argv) > 1 else 'quick', 0))


def run_single(host_rel, harness_file, modname, harness, scratch, timeout=900, sub='kani1', stubbing=False):
    """Runs one Kani harness injected as a child module of /repo/<host_rel> in a scratch clone (scratch/<sub>).
    Returns (verdict, detail, playback): verdict in ok | violation | undecided."""
    dst = os.path.join(scratch, sub, 'repo')
    os.makedirs(os.path.dirname(dst), exist_ok=True)
    subprocess.run(['rsync', '-a', '--delete', '--exclude', 'target', '--exclude', '.git', REPO + '/', dst + '/'], check=True)
    with open(os.path.join(dst, host_rel), 'a') as f:
        f.write('\n#[cfg(kani)]\n#[path = "%s"]\nmod %s;\n' % (harness_file, modname))
    env = dict(os.environ, CARGO_NET_OFFLINE='true')
    zs = ['-Z', 'stubbing'] if stubbing else []
    try:
        p = subprocess.run(['cargo', 'kani'] + zs + ['--output-format', 'regular', '--harness', harness], cwd=dst, env=env, capture_output=True, text=True, timeout=timeout)
    except subprocess.TimeoutExpired:
        return 'undecided', 'cargo kani timed out after %d s' % timeout, None
    res = parse(p.stdout + '\n' + p.stderr).get(harness)
    if not res or not res['checks']:
        return 'undecided', 'no result for harness %s: %s' % (harness, (p.stdout + p.stderr)[-600:]), None
    bad = [c for c in res['checks'] if c[1] == 'FAILURE']
    und = [c for c in res['checks'] if c[1] not in ('SUCCESS', 'FAILURE', 'UNREACHABLE')]
    if bad:
        play = None
        try:
            p2 = subprocess.run(['cargo', 'kani'] + zs + ['-Z', 'concrete-playback', '--concrete-playback=print', '--harness', harness], cwd=dst, env=env,
                                capture_output=True, text=True, timeout=timeout)
            m = re.search(r'```(.*?)```', p2.stdout, re.S)
            play = m.group(1).strip() if m else None
        except Exception:
            pass
        return 'violation', '%s: %s (%s)' % (bad[0][0], bad[0][2], bad[0][3]), play
    if und or res['verdict'] != 'SUCCESSFUL':
        return 'undecided', 'kani verdict %s, %d undetermined checks' % (res['verdict'], len(und)), None
    return 'ok', '%d checks SUCCESS in %.1f s' % (len(res['checks']), res['time'] or 0), None
