#!/usr/bin/env python3
"""seed_meta.py <id> <property> <detected_by> <exit> : writes /verif/seeded/<id>/meta.json from the agent's meta + what we ran."""
import json, sys, os
sid, prop, det, ex = sys.argv[1:5]
d = '/verif/seeded/' + sid
a = {}
try:
    a = json.load(open(d + '/meta.agent.json'))
except Exception:
    try:
        a = json.load(open(d + '/meta.json'))   # re-recording a verdict keeps the description
    except Exception:
        pass
m = {
 'id': sid, 'property': prop,
 'what_it_breaks': a.get('what_it_breaks', ''),
 'needs_to_manifest': a.get('needs_to_manifest', ''),
 'confirmed': 'tools/confirm_seed.sh in a scratch worktree of /repo HEAD: existing suite (166 tests) passes with the change; demo.rs fails with it and passes without it',
 'ran': ['git -C /repo apply seeded/%s/patch.diff; ./check %s --tier quick; git -C /repo checkout -- .' % (sid, prop)],
 'detected_by': det, 'check_exit': int(ex),
}
json.dump(m, open(d + '/meta.json', 'w'), indent=1)
if os.path.exists(d + '/meta.agent.json'):
    os.remove(d + '/meta.agent.json')
