use vstd::prelude::*;
verus! {

pub assume_specification[ i32::is_negative ](x: i32) -> (r: bool) ensures r == (x < 0);
pub assume_specification[ i128::is_negative ](x: i128) -> (r: bool) ensures r == (x < 0);
pub assume_specification[ i128::unsigned_abs ](x: i128) -> (r: u128) ensures r == (if x < 0 { -x } else { x as int });

#[verifier::external_body]
pub struct OutOfRange { _p: () }
pub enum AstrolabeError { OutOfRange(OutOfRange), InvalidFormat(OutOfRange) }
#[verifier::external_body]
pub fn create_simple_oor(name: &'static str, min: i128, max: i128, value: i128) -> (e: AstrolabeError)
    ensures e is OutOfRange
{ unimplemented!() }

pub const NANOS_PER_SEC: u64 = 1_000_000_000;
pub const SECS_PER_MINUTE_U64: u64 = 60;
pub const SECS_PER_HOUR_U64: u64 = 60 * SECS_PER_MINUTE_U64;
pub const SECS_PER_DAY_U64: u64 = 24 * SECS_PER_HOUR_U64;
pub const NANOS_PER_DAY: u64 = SECS_PER_DAY_U64 * NANOS_PER_SEC;

pub proof fn lemma_consts()
    ensures NANOS_PER_SEC == 1_000_000_000, SECS_PER_HOUR_U64 == 3600, SECS_PER_DAY_U64 == 86400, NANOS_PER_DAY == 86_400_000_000_000,
{ assert(NANOS_PER_DAY == 86_400_000_000_000) by (compute_only); assert(SECS_PER_HOUR_U64 == 3600) by (compute_only); assert(SECS_PER_DAY_U64 == 86400) by (compute_only); }
pub open spec fn NPD() -> int { 86_400_000_000_000 }
pub open spec fn instant(days: int, nanos: int) -> int { days * NPD() + nanos }

pub fn days_nanos_to_nanos(mut days: i32, day_nanos: u64) -> (r: i128)
    requires day_nanos < NPD()
    ensures r == instant(days as int, day_nanos as int)
{
    proof { lemma_consts(); }
    let adjusted_day_nanos = if days.is_negative() {
        days += 1;
        -(NANOS_PER_DAY as i128 - day_nanos as i128)
    } else {
        day_nanos as i128
    };
    days as i128 * NANOS_PER_DAY as i128 + adjusted_day_nanos
}

pub fn nanos_to_days_nanos(nanoseconds: i128) -> (r: Result<(i32, u64), AstrolabeError>)
    ensures match r {
        Ok((d, n)) => n < NPD() && instant(d as int, n as int) == nanoseconds,
        Err(e) => e is OutOfRange && !(i32::MIN * NPD() <= nanoseconds < (i32::MAX + 1) * NPD()),
    }
{
    proof { lemma_consts(); }
    let day_nanos = (nanoseconds.unsigned_abs() % NANOS_PER_DAY as u128) as u64;

    let days_i128 = if nanoseconds.is_negative() && day_nanos != 0 {
        nanoseconds / NANOS_PER_DAY as i128 - 1
    } else {
        nanoseconds / NANOS_PER_DAY as i128
    };

    let days = days_i128.try_into().map_err(|_e| {
        create_simple_oor(
            "nanoseconds",
            i32::MIN as i128 * NANOS_PER_DAY as i128,
            i32::MAX as i128 * NANOS_PER_DAY as i128 + NANOS_PER_DAY as i128 - 1,
            nanoseconds,
        )
    })?;

    let adjusted_day_nanos = if nanoseconds.is_negative() && day_nanos != 0 {
        NANOS_PER_DAY - day_nanos
    } else {
        day_nanos
    };

    Ok((days, adjusted_day_nanos))
}

pub fn add_hours(nanos: u64, hours: u32) -> (r: u64)
    requires nanos < NPD()
    ensures r == nanos + hours * 3_600_000_000_000
{
    proof { lemma_consts(); }
    let hours_as_nanos = hours as u64 * SECS_PER_HOUR_U64 * NANOS_PER_SEC;

    nanos + hours_as_nanos
}

} // verus!
fn main() {}
