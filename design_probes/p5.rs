use vstd::prelude::*;
verus! {
pub assume_specification[ i32::is_negative ](x: i32) -> (r: bool) ensures r == (x < 0);
pub const NANOS_PER_SEC: u64 = 1_000_000_000;
pub const SECS_PER_MINUTE_U64: u64 = 60;
pub const SECS_PER_HOUR_U64: u64 = 60 * SECS_PER_MINUTE_U64;
pub const SECS_PER_DAY_U64: u64 = 24 * SECS_PER_HOUR_U64;
pub const NANOS_PER_DAY: u64 = SECS_PER_DAY_U64 * NANOS_PER_SEC;
pub proof fn lemma_consts()
    ensures NANOS_PER_SEC == 1_000_000_000, SECS_PER_HOUR_U64 == 3600, SECS_PER_DAY_U64 == 86400, NANOS_PER_DAY == 86_400_000_000_000,
{ assert(NANOS_PER_DAY == 86_400_000_000_000) by (compute_only); assert(SECS_PER_HOUR_U64 == 3600) by (compute_only); assert(SECS_PER_DAY_U64 == 86400) by (compute_only); }
pub open spec fn NPD() -> int { 86_400_000_000_000 }
pub open spec fn instant(days: int, nanos: int) -> int { days * NPD() + nanos }

pub fn days_nanos_to_nanos(mut days: i32, day_nanos: u64) -> (r: i128)
    requires day_nanos < NPD()
    ensures r == instant(days as int, day_nanos as int)
{
    proof { lemma_consts(); }
    let ghost d0 = days;
    let adjusted_day_nanos = if days.is_negative() {
        days += 1;
        -(NANOS_PER_DAY as i128 - day_nanos as i128)
    } else {
        day_nanos as i128
    };
    proof { assert(days as i128 * NANOS_PER_DAY as i128 == days * 86_400_000_000_000) by (nonlinear_arith) requires NANOS_PER_DAY == 86_400_000_000_000; assert((d0+1) * NPD() == d0 * NPD() + NPD()) by (nonlinear_arith); }
    days as i128 * NANOS_PER_DAY as i128 + adjusted_day_nanos
}
}
fn main() {}
