use vstd::prelude::*;
verus! {

pub assume_specification[ i32::is_negative ](x: i32) -> (r: bool) ensures r == (x < 0);
pub assume_specification[ i64::is_negative ](x: i64) -> (r: bool) ensures r == (x < 0);
pub assume_specification[ i32::is_positive ](x: i32) -> (r: bool) ensures r == (x > 0);
pub assume_specification[ i32::abs ](x: i32) -> (r: i32)
    requires x != i32::MIN,
    ensures r == (if x < 0 { -x } else { x as int });

// ---------- mathematical calendar (from the property statement) ----------
pub open spec fn astro(y: int) -> int { if y < 0 { y + 1 } else { y } }
pub open spec fn leap_astro(a: int) -> bool { a % 4 == 0 && (a % 100 != 0 || a % 400 == 0) }
pub open spec fn is_leap(y: int) -> bool { leap_astro(astro(y)) }
pub open spec fn mdays(y: int, m: int) -> int {
    if m == 2 { if is_leap(y) { 29 } else { 28 } }
    else if m == 4 || m == 6 || m == 9 || m == 11 { 30 } else { 31 }
}
pub open spec fn before_month(y: int, m: int) -> int {
    (if m == 1 { 0 } else if m == 2 { 31 } else if m == 3 { 59 } else if m == 4 { 90 }
    else if m == 5 { 120 } else if m == 6 { 151 } else if m == 7 { 181 } else if m == 8 { 212 }
    else if m == 9 { 243 } else if m == 10 { 273 } else if m == 11 { 304 } else { 334int })
    + (if m > 2 && is_leap(y) { 1int } else { 0 })
}
pub open spec fn before_year(y: int) -> int {
    let a = astro(y) - 1;
    365 * a + a / 4 - a / 100 + a / 400
}
pub open spec fn valid_ymd(y: int, m: int, d: int) -> bool {
    y != 0 && 1 <= m <= 12 && 1 <= d <= mdays(y, m)
}
pub open spec fn ymd_days(y: int, m: int, d: int) -> int { before_year(y) + before_month(y, m) + d - 1 }

pub(crate) fn is_leap_year(mut year: i32) -> (r: bool)
    ensures r == is_leap(year as int)
{
    if year.is_negative() {
        year += 1;
    }
    year % 4 == 0 && (year % 100 != 0 || year % 400 == 0)
}

spec fn march_month_len(i: int) -> int {
    if i == 0 { 31 } else if i == 1 { 30 } else if i == 2 { 31 } else if i == 3 { 30 } else if i == 4 { 31 }
    else if i == 5 { 31 } else if i == 6 { 30 } else if i == 7 { 31 } else if i == 8 { 30 } else if i == 9 { 31 }
    else if i == 10 { 31 } else { 29 }
}
spec fn march_before(i: int) -> int decreases i { if i <= 0 { 0 } else { march_before(i - 1) + march_month_len(i - 1) } }

pub(crate) fn days_to_date(days: i32) -> (r: (i32, u32, u32))
    ensures valid_ymd(r.0 as int, r.1 as int, r.2 as int),
            ymd_days(r.0 as int, r.1 as int, r.2 as int) == days,
{
    // 2000-03-01. Days since 0001-01-01
    const LEAPOCH: i64 = 730_179;
    const DAYS_PER_400Y: i64 = 365 * 400 + 97;
    const DAYS_PER_100Y: i64 = 365 * 100 + 24;
    const DAYS_PER_4Y: i64 = 365 * 4 + 1;
    const MONTH_DAYS: [i64; 12] = [31, 30, 31, 30, 31, 31, 30, 31, 30, 31, 31, 29];

    proof { assert(LEAPOCH == 730179 && DAYS_PER_400Y == 146097 && DAYS_PER_100Y == 36524 && DAYS_PER_4Y == 1461); }
    let days = days as i64 - LEAPOCH;

    let mut qc_cycles = days / DAYS_PER_400Y;
    let mut remdays = days % DAYS_PER_400Y;

    if remdays.is_negative() {
        remdays += DAYS_PER_400Y;
        qc_cycles -= 1;
    }
    proof { assert(days == qc_cycles * 146097 + remdays && 0 <= remdays < 146097); }

    let mut c_cycles = remdays / DAYS_PER_100Y;
    if c_cycles == 4 {
        c_cycles -= 1;
    }
    remdays -= c_cycles * DAYS_PER_100Y;

    let q_cycles = remdays / DAYS_PER_4Y;

    remdays -= q_cycles * DAYS_PER_4Y;

    let mut remyears = remdays / 365;
    if remyears == 4 {
        remyears -= 1;
    }
    let mut year = 2000 + remyears + 4 * q_cycles + 100 * c_cycles + 400 * qc_cycles;

    remdays -= remyears * 365;

    let ghost yd = remdays;
    proof { reveal_with_fuel(march_before, 14); }
    let mut mon = 0;
    for mdays in it: MONTH_DAYS.iter()
        invariant_except_break
            mon == it.index@, yd == remdays + march_before(mon as int),
        invariant
            it.seq().len() == 12, forall|k: int| 0 <= k < 12 ==> *it.seq()[k] == march_month_len(k),
            0 <= remdays, 0 <= yd < 366,
        ensures
            1 <= mon <= 12, yd == remdays + march_before(mon - 1), 0 <= remdays < march_month_len(mon - 1),
    {
        proof { reveal_with_fuel(march_before, 14); }
        mon += 1;
        if remdays < *mdays {
            break;
        }
        remdays -= *mdays;
    }
    let mday = remdays + 1;

    let mon = if mon + 2 > 12 {
        year += 1;
        mon - 10
    } else {
        mon + 2
    };

    // As there is no year 0, subtract one if year is lower than 1
    if year < 1 {
        year -= 1;
    }

    (year as i32, mon as u32, mday as u32)
}

} // verus!
fn main() {}
