use crate::local::timezone::TimeZone;

#[kani::proof]
#[kani::unwind(6)]
fn tzif_v1_nopanic() {
    let mut bytes: [u8; 64] = kani::any();
    // v1 header with magic fixed; counts symbolic but small so the loops stay within the unwind bound
    bytes[0] = b'T'; bytes[1] = b'Z'; bytes[2] = b'i'; bytes[3] = b'f'; bytes[4] = 0;
    for i in [20usize, 21, 22, 24, 25, 26, 28, 29, 30, 32, 33, 34, 36, 37, 38, 40, 41, 42] { bytes[i] = 0; }
    kani::assume(bytes[23] <= 1 && bytes[27] <= 1 && bytes[31] <= 1 && bytes[35] <= 2 && bytes[39] <= 2 && bytes[43] <= 4);
    let len: usize = kani::any();
    kani::assume(len <= 64);
    if let Ok(tz) = TimeZone::from_tzif(&bytes[..len]) {
        let ts: i64 = kani::any();
        let _ = tz.to_local_time_type(ts);
    }
}
