use crate::Date;
use crate::util::format::{format_time_part};

fn fmt_stub(_args: std::fmt::Arguments<'_>) -> String { String::new() }

#[kani::proof]
#[kani::unwind(8)]
#[kani::stub(alloc::fmt::format, fmt_stub)]
fn parse_dd_nopanic_stubbed() {
    let bytes: [u8; 3] = kani::any();
    let len: usize = kani::any();
    kani::assume(len <= 3);
    if let Ok(s) = std::str::from_utf8(&bytes[..len]) {
        let _ = Date::parse(s, "dd");
    }
}

use std::sync::atomic::{AtomicU64, AtomicUsize, Ordering::Relaxed};
static LOGN: AtomicUsize = AtomicUsize::new(0);
static LOG0: AtomicU64 = AtomicU64::new(0);
static LOG1: AtomicU64 = AtomicU64::new(0);
static LOG2: AtomicU64 = AtomicU64::new(0);
fn zp_stub(number: u32, length: usize) -> String {
    let v = ((number as u64) << 8) | (length as u64 & 0xff);
    match LOGN.load(Relaxed) { 0 => LOG0.store(v, Relaxed), 1 => LOG1.store(v, Relaxed), _ => LOG2.store(v, Relaxed) }
    LOGN.store(LOGN.load(Relaxed) + 1, Relaxed);
    String::new()
}

#[kani::proof]
#[kani::unwind(4)]
#[kani::stub(crate::util::format::zero_padded, zp_stub)]
#[kani::stub(alloc::fmt::format, fmt_stub)]
fn fmt_hh_row() {
    let nanos: u64 = kani::any();
    kani::assume(nanos < 86_400_000_000_000);
    let off: i32 = kani::any();
    let _ = format_time_part("hh", nanos, off);
    let h = (nanos / 3_600_000_000_000) as u32;
    let exp = if h % 12 == 0 { 12 } else { h % 12 };
    assert!(LOGN.load(Relaxed) == 1 && LOG0.load(Relaxed) == (((exp as u64) << 8) | 2));
}

#[kani::proof]
#[kani::unwind(4)]
#[kani::stub(crate::util::format::zero_padded, zp_stub)]
#[kani::stub(alloc::fmt::format, fmt_stub)]
fn fmt_xxxx_row() {
    let off: i32 = kani::any();
    kani::assume(off > -86400 && off < 86400 && off != 0);
    let _ = format_time_part("XXXX", 0, off);
    let a = off.unsigned_abs();
    assert!(LOG0.load(Relaxed) == ((((a / 3600) as u64) << 8) | 2));
    assert!(LOG1.load(Relaxed) == ((((a % 3600 / 60) as u64) << 8) | 2));
    assert!(LOGN.load(Relaxed) == if a % 60 != 0 { 3 } else { 2 });
}

#[kani::proof]
#[kani::unwind(6)]
#[kani::stub(alloc::fmt::format, fmt_stub)]
fn pick_part_nopanic() {
    let c0: char = kani::any();
    let c1: char = kani::any();
    let n: usize = kani::any();
    kani::assume(n <= 2);
    let mut s = String::new();
    if n >= 1 { s.push(c0); }
    if n >= 2 { s.push(c1); }
    let len: usize = kani::any();
    kani::assume(len <= 3);
    let _ = crate::util::parse::verif_pick_u32(len, &mut s);
}

#[kani::proof]
#[kani::unwind(6)]
fn remove_part_nopanic() {
    let c0: char = kani::any();
    let c1: char = kani::any();
    let mut s = String::new();
    s.push(c0);
    s.push(c1);
    let len: usize = kani::any();
    kani::assume(len <= 3);
    let _ = crate::util::parse::verif_remove(len, &mut s);
}
