use crate::util::date::convert::{days_to_wday};
use crate::util::format::{format_time_part, zero_padded};
use crate::{Date, DateTime};

#[kani::proof]
fn wday_spec() {
    let days: i32 = kani::any();
    let w = days_to_wday(days, false);
    assert!(w as i64 == (days as i64 + 1).rem_euclid(7));
}

#[kani::proof]
#[kani::unwind(12)]
fn zero_padded_2() {
    let n: u32 = kani::any();
    kani::assume(n < 100);
    let s = zero_padded(n, 2);
    let b = s.as_bytes();
    assert!(b.len() == 2 && b[0] == b'0' + (n / 10) as u8 && b[1] == b'0' + (n % 10) as u8);
}

#[kani::proof]
#[kani::unwind(8)]
fn parse_dd_nopanic() {
    let bytes: [u8; 3] = kani::any();
    let len: usize = kani::any();
    kani::assume(len <= 3);
    if let Ok(s) = std::str::from_utf8(&bytes[..len]) {
        let _ = Date::parse(s, "dd");
    }
}
