use vstd::prelude::*;
verus! {

pub assume_specification[ i32::is_negative ](x: i32) -> (r: bool) ensures r == (x < 0);

// ---- error plumbing: real types kept, constructors opaque ----
#[verifier::external_body]
pub struct OutOfRange { _p: () }
pub enum AstrolabeError { OutOfRange(OutOfRange), InvalidFormat(OutOfRange) }

#[verifier::external_body]
pub fn verif_fmt() -> String { String::new() }

#[verifier::external_body]
pub(crate) fn create_simple_oor(name: &'static str, min: i128, max: i128, value: i128) -> (e: AstrolabeError)
    ensures e is OutOfRange
{ unimplemented!() }
#[verifier::external_body]
pub(crate) fn create_custom_oor(custom: String) -> (e: AstrolabeError)
    ensures e is OutOfRange
{ unimplemented!() }

#[verifier::external_body]
pub fn verif_panic() -> !
    requires false
{ panic!() }

pub(crate) fn add_days(old_days: i32, days: u32) -> (r: Result<i32, AstrolabeError>)
    ensures
        match r { Ok(v) => v == old_days + days, Err(e) => e is OutOfRange && old_days + days > i32::MAX },
{
    old_days.checked_add(days as i32).ok_or_else(|| {
        create_custom_oor(verif_fmt())
    })
}

pub struct Date { pub days: i32 }

pub trait DateUtilities: Sized {
    fn add_days(&self, days: u32) -> Self;
}

impl DateUtilities for Date {
    fn add_days(&self, days: u32) -> (r: Self)
        ensures r.days == self.days + days
    {
        let new_days = add_days(self.days, days);

        let new_days = match new_days {
            Ok(new_days) => new_days,
            Err(e) => verif_panic(),
        };

        Self { days: new_days }
    }
}

} // verus!
fn main() {}
