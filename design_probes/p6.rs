use vstd::prelude::*;
use std::time::Duration;
use std::ops::Add;
use std::cmp;
verus! {


pub uninterp spec fn dur_nanos(d: Duration) -> int;
pub assume_specification[ Duration::as_nanos ](d: &Duration) -> (r: u128)
    ensures r == dur_nanos(*d), 0 <= dur_nanos(*d) <= 18446744073709551615 * 1_000_000_000 + 999_999_999;

pub const NANOS_PER_DAY: u64 = 86_400_000_000_000;
pub open spec fn npd() -> int { 86_400_000_000_000 }

#[derive(Clone, Copy)]
pub enum Offset { Fixed(i32), Local }

impl Offset {
    #[verifier::external_body]
    pub fn resolve(self) -> (r: i32)
        ensures self matches Offset::Fixed(o) ==> r == o
    { unimplemented!() }
}

#[derive(Clone, Copy)]
pub struct DateTime { pub days: i32, pub nanoseconds: u64, pub offset: Offset }

pub open spec fn instant(dt: DateTime) -> int { dt.days * npd() + dt.nanoseconds }
pub open spec fn wf(dt: DateTime) -> bool { dt.nanoseconds < npd() }

impl DateTime {
    #[verifier::type_invariant]
    pub open spec fn inv(self) -> bool { self.nanoseconds < npd() }

    #[verifier::external_body]
    pub fn as_nanos(&self) -> (r: i128)
        ensures r == instant(*self)
    { unimplemented!() }
}

impl Add<Duration> for DateTime {
    type Output = Self;

    fn add(self, rhs: Duration) -> (r: Self)
        ensures wf(r), instant(r) == instant(self) + dur_nanos(rhs), r.offset == self.offset
    {
        proof { use_type_invariant(&self); }
        let nanos = self.as_nanos() + rhs.as_nanos() as i128;
        Self {
            days: (nanos / NANOS_PER_DAY as i128) as i32,
            nanoseconds: (nanos % NANOS_PER_DAY as i128) as u64,
            offset: self.offset,
        }
    }
}

impl cmp::PartialEq for DateTime {
    fn eq(&self, rhs: &Self) -> (r: bool)
        ensures r == (instant(*self) == instant(*rhs))
    {
        self.as_nanos() == rhs.as_nanos()
    }
}

} // verus!
fn main() {}
