use crate::cron::*;
use crate::CronSchedule;

#[kani::proof]
#[kani::unwind(8)]
fn cron_field_bounded() {
    let bytes: [u8; 4] = kani::any();
    let len: usize = kani::any();
    kani::assume(len <= 4);
    // restrict to the cron alphabet to keep the search meaningful
    for i in 0..4 { let b = bytes[i]; kani::assume(b == b'*' || b == b'/' || b == b',' || b == b'-' || (b >= b'0' && b <= b'9')); }
    let s = std::str::from_utf8(&bytes[..len]).unwrap();
    if let Ok(set) = verif_parse_minutes(s) {
        assert!(set.iter().all(|v| *v <= 59));
        assert!(!set.is_empty());
    }
}
