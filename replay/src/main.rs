//! Replays concrete inputs against the real crate (public API only).
//!   replay witness <finding-id>      -> prints MANIFESTS / GONE for a listed known finding
//! Exit code 0 always; the driver reads the printed line.
use astrolabe::{DateTime, DateUtilities, Offset, OffsetUtilities, TimeUtilities};
use std::panic;

fn quiet<T>(f: impl FnOnce() -> T + panic::UnwindSafe) -> Result<T, ()> {
    let hook = panic::take_hook();
    panic::set_hook(Box::new(|_| {}));
    let r = panic::catch_unwind(f).map_err(|_| ());
    panic::set_hook(hook);
    r
}

/// F-range-end: local-time API within two days of the range ends.
/// 5879611-07-12T22:30Z shown at +01:00 is a valid value (local 23:30); adding 45 minutes keeps the UTC instant in range
/// (23:15Z) but its local reading is not, and every getter / setter then panics instead of answering.
fn f_range_end() -> bool {
    let r = quiet(|| {
        let dt = DateTime::from_ymdhms(5_879_611, 7, 12, 22, 30, 0)
            .unwrap()
            .set_offset(Offset::from_hms(1, 0, 0).unwrap());
        let later = dt.add_minutes(45);
        (later.timestamp(), later)
    });
    match r {
        // the instant is representable and was returned ...
        Ok((_, later)) => quiet(move || later.hour()).is_err() || quiet(move || later.set_minute(0)).is_err(),
        Err(_) => false,
    }
}

fn main() {
    let args: Vec<String> = std::env::args().collect();
    if args.len() >= 3 && args[1] == "witness" {
        let m = match args[2].as_str() {
            "F-range-end" => f_range_end(),
            _ => {
                println!("UNKNOWN {}", args[2]);
                return;
            }
        };
        println!("{} {}", if m { "MANIFESTS" } else { "GONE" }, args[2]);
        return;
    }
    println!("usage: replay witness <finding-id>");
}
