//! Differential counterexample search: the same public-API call on the crate at /repo's git HEAD (where the
//! contracts are proved) and on /repo's working tree. Used only after the verifier has flagged an obligation:
//! an input on which the two disagree is a concrete failing input for a functional contract.
//!   cesearch <property> <seed> <count>      -> prints one JSON line for the first disagreement, or NONE
//!   cesearch case <property> <a> <b> <c> <d> <e> <f>   -> prints both results for one case
use std::panic;

#[derive(Clone, Copy, Debug)]
pub struct Case {
    pub a: i64,
    pub b: i64,
    pub c: i64,
    pub d: i64,
    pub e: i64,
    pub f: i64,
}

macro_rules! battery {
    ($m:ident, $k:ident) => {
        pub mod $m {
            use super::Case;
            use $k::{CronSchedule, Date, DateTime, DateUtilities, Offset, OffsetUtilities, Precision, Time, TimeUtilities};
            use $k::verif_hooks::tz_lookup;
            use std::time::Duration;

            fn date(days: i64) -> Date {
                // day number -> Date through the public timestamp constructor
                Date::from_timestamp((days - 719_162) * 86_400)
            }
            fn dt(days: i64, nanos: i64, off: i64) -> DateTime {
                let base = DateTime::from_timestamp((days - 719_162) * 86_400).add_seconds(((nanos / 1_000_000_000) % 86_400) as u32).add_nanos((nanos % 1_000_000_000) as u32);
                if off == 0 { base } else { base.set_offset(Offset::from_seconds(off as i32).unwrap()) }
            }
            fn time(nanos: i64, off: i64) -> Time {
                let t = Time::from_nanos(nanos as u64).unwrap();
                if off == 0 { t } else { t.set_offset(Offset::from_seconds(off as i32).unwrap()) }
            }
            fn show_dt(x: &DateTime) -> String {
                format!("{}|{}|{:?}|{}", x.timestamp(), x.set_offset(Offset::Fixed(0)).nano(), x.get_offset(), x.format_rfc3339(Precision::Nanos))
            }
            fn show_t(x: &Time) -> String {
                format!("{}|{:?}", x.as_nanos(), x.get_offset())
            }
            fn show_d(x: &Date) -> String {
                format!("{}|{:?}", x.timestamp(), x.as_ymd())
            }
            fn p(f: impl FnOnce() -> String) -> String {
                match std::panic::catch_unwind(std::panic::AssertUnwindSafe(f)) { Ok(s) => s, Err(_) => "PANIC".to_string() }
            }
            fn res<T, E: std::fmt::Display>(r: Result<T, E>, f: impl Fn(&T) -> String) -> String {
                match r { Ok(v) => format!("Ok({})", f(&v)), Err(e) => format!("Err({})", e) }
            }

            pub fn run(prop: &str, c: &Case) -> String {
                let Case { a, b, c: cc, d, e, f } = *c;
                match prop {
                    "C01" | "C02" => {
                        let x = date(a);
                        // C01 looks at year-month-day <-> day number, C02 at weekday, day of year, ISO week, quarter
                        let mut s = if prop == "C01" { format!("{:?}", x.as_ymd()) } else { format!("wd={} doy={} w={} q={} e={} D={}", x.weekday(), x.day_of_year(), x.format("w"), x.format("q"), x.format("e"), x.format("D")) };
                        if prop == "C01" {
                            s += &format!(" from_ymd={}", res(Date::from_ymd(b as i32, cc as u32, d as u32), show_d));
                            s += &format!(" dt_from_ymd={}", res(DateTime::from_ymd(b as i32, cc as u32, d as u32), show_dt));
                            return s;
                        }
                        s += &format!(" set_doy={}", res(x.set_day_of_year(e as u32), show_d));
                        // the same through a DateTime read with an offset (local date may differ from the UTC date)
                        let offs = [0i64, 7200, -7200, 3600, -3661, 86_399, -86_399, 1800];
                        let y = dt(a.clamp(-2_000_000_000, 2_000_000_000), (d.rem_euclid(24) * 3600 + 1800) * 1_000_000_000, offs[(f.rem_euclid(8)) as usize]);
                        s += &p(|| format!(" dt: wd={} doy={} set_doy={}", y.weekday(), y.day_of_year(), res(y.set_day_of_year(e as u32), |q| format!("{} doy{}", show_dt(q), q.day_of_year()))));
                        s
                    }
                    "C03" => {
                        let x = DateTime::from_timestamp(a);
                        let y = dt(b, cc, d);
                        let z = dt(b + e.rem_euclid(2) , cc + f.rem_euclid(3), -d);
                        format!("{} date={} eq={} cmp={:?} eqself={}", show_dt(&x), show_d(&Date::from_timestamp(a)), y == z, y.cmp(&z), y == y.set_offset(Offset::Fixed(0)))
                    }
                    "C04" => {
                        let x = dt(a, b, cc);
                        let n = d as u32;
                        let r = p(|| match e.rem_euclid(20) {
                            0 => show_dt(&x.add_hours(n)), 1 => show_dt(&x.add_minutes(n)), 2 => show_dt(&x.add_seconds(n)), 3 => show_dt(&x.add_millis(n)),
                            4 => show_dt(&x.add_micros(n)), 5 => show_dt(&x.add_nanos(n)), 6 => show_dt(&x.sub_hours(n)), 7 => show_dt(&x.sub_minutes(n)),
                            8 => show_dt(&x.sub_seconds(n)), 9 => show_dt(&x.sub_millis(n)), 10 => show_dt(&x.sub_micros(n)), 11 => show_dt(&x.sub_nanos(n)),
                            12 => show_dt(&x.add_days(n)), 13 => show_dt(&x.sub_days(n)), 14 => show_d(&date(a).add_days(n)), 15 => show_d(&date(a).sub_days(n)),
                            16 => show_dt(&(x + Duration::new(f as u64, (d as u32) % 1_000_000_000))), 17 => show_dt(&(x - Duration::new(f as u64, (d as u32) % 1_000_000_000))),
                            18 => show_dt(&(x + time(f.rem_euclid(86_400_000_000_000), 0))), _ => show_dt(&(x - time(f.rem_euclid(86_400_000_000_000), cc))),
                        });
                        let du = Duration::new(f as u64, (d as u32) % 1_000_000_000);
                        let tm = time(f.rem_euclid(86_400_000_000_000), 0);
                        let r = format!("{} ; {}", r, p(|| match e.rem_euclid(6) {
                            0 => { let mut y = x; y += du; show_dt(&y) } 1 => { let mut y = x; y -= du; show_dt(&y) }
                            2 => { let mut y = x; y += tm; show_dt(&y) } 3 => { let mut y = x; y -= tm; show_dt(&y) }
                            4 => { let mut y = date(a); y += du; show_d(&y) } _ => { let mut y = date(a); y -= du; show_d(&y) }
                        }));
                        let r2 = p(|| match e.rem_euclid(2) { 0 => show_d(&(date(a) + Duration::new(f as u64, 5))), _ => show_d(&(date(a) - Duration::new(f as u64, 5))) });
                        format!("{} / {}", r, r2)
                    }
                    "C05" => {
                        let x = dt(a, b, cc);
                        let n = d as u32;
                        match e.rem_euclid(8) {
                            0 => show_dt(&x.add_months(n)), 1 => show_dt(&x.sub_months(n)), 2 => show_dt(&x.add_years(n)), 3 => show_dt(&x.sub_years(n)),
                            4 => show_d(&date(a).add_months(n)), 5 => show_d(&date(a).sub_months(n)), 6 => show_d(&date(a).add_years(n)), _ => show_d(&date(a).sub_years(n)),
                        }
                    }
                    "C06" | "C07" => {
                        let x = dt(a, b, cc);
                        let y = dt(d, e, f.rem_euclid(7) * 3600);
                        let (tx, ty) = (time(b, 0), time(e, 0));
                        let p1 = p(|| format!("{} {} {} {} {} {} {}", x.days_since(&y), x.hours_since(&y), x.minutes_since(&y), x.seconds_since(&y), x.millis_since(&y), x.micros_since(&y), x.nanos_since(&y)));
                        let p2 = p(|| format!("{} {}", x.months_since(&y), x.years_since(&y)));
                        let p3 = p(|| format!("{} {} {} {} {} {}", tx.hours_since(&ty), tx.minutes_since(&ty), tx.seconds_since(&ty), tx.millis_since(&ty), tx.micros_since(&ty), tx.nanos_since(&ty)));
                        let p5 = p(|| format!("{:?} {:?} {:?}", x.duration_between(&y), tx.duration_between(&ty), date(a).duration_between(&date(d))));
                        // C06 looks at the fixed-length units and Duration, C07 at calendar months and years
                        if prop == "C07" {
                            return format!("{} | d {}", p2, p(|| format!("{} {}", date(a).months_since(&date(d)), date(a).years_since(&date(d)))));
                        }
                        format!("{} | t {} | d {} | dur {}", p1, p3, p(|| format!("{}", date(a).days_since(&date(d)))), p5)
                    }
                    "C08" => {
                        let x = time(a.rem_euclid(86_400_000_000_000), b);
                        let n = cc as u32;
                        let y = time(d.rem_euclid(86_400_000_000_000), 0);
                        let r = match e.rem_euclid(18) {
                            0 => show_t(&x.add_hours(n)), 1 => show_t(&x.add_minutes(n)), 2 => show_t(&x.add_seconds(n)), 3 => show_t(&x.add_millis(n)),
                            4 => show_t(&x.add_micros(n)), 5 => show_t(&x.add_nanos(n)), 6 => show_t(&x.sub_hours(n)), 7 => show_t(&x.sub_minutes(n)),
                            8 => show_t(&x.sub_seconds(n)), 9 => show_t(&x.sub_millis(n)), 10 => show_t(&x.sub_micros(n)), 11 => show_t(&x.sub_nanos(n)),
                            12 => show_t(&(x + y)), 13 => show_t(&(x - y)), 14 => show_t(&(x + Duration::new(f as u64, n % 1_000_000_000))),
                            15 => show_t(&(x - Duration::new(f as u64, n % 1_000_000_000))), 16 => show_t(&Time::from(dt(f.rem_euclid(4_000_000) - 2_000_000, a.rem_euclid(86_400_000_000_000), b))),
                            _ => format!("{} {}", x == y, x.as_hms() == y.as_hms()),
                        };
                        let r = format!("{} ; {} {} {:?} {}", r, { let mut z = x; z += y; show_t(&z) }, { let mut z = x; z -= Duration::new(f as u64, n % 1_000_000_000); show_t(&z) }, x.as_hms(), x.as_seconds());
                        let dd = dt(f.rem_euclid(4_000_000) - 2_000_000, a.rem_euclid(86_400_000_000_000), b);
                        let r = format!("{} ; {} {} {} {}", r, show_t(&Time::from(&dd)), show_dt(&DateTime::from(x)), show_dt(&DateTime::from(&x)), show_d(&Date::from(&dd)));
                        format!("{} | {} {} {}", r, res(Time::from_hms(f as u32, d as u32, cc as u32), show_t), res(Time::from_seconds(f as u32), show_t), res(Time::from_nanos(d as u64), show_t))
                    }
                    "C09" | "C10" | "C15" => {
                        let x = dt(a, b, cc);
                        let t = time(b, cc);
                        let v = d as u32;
                        let g = |q: &DateTime| format!("{}-{}-{} {}:{}:{}.{} {}/{}/{} doy{} wd{}", q.year(), q.month(), q.day(), q.hour(), q.minute(), q.second(), q.nano(), q.milli(), q.micro(), q.timestamp(), q.day_of_year(), q.weekday());
                        let gt = |q: &Time| format!("{}:{}:{}.{} {}/{} {}", q.hour(), q.minute(), q.second(), q.nano(), q.milli(), q.micro(), q.as_nanos());
                        let r = p(|| match e.rem_euclid(30) {
                            0 => res(x.set_year(d as i32), g), 1 => res(x.set_month(v), g), 2 => res(x.set_day(v), g), 3 => res(x.set_day_of_year(v), g),
                            4 => res(x.set_hour(v), g), 5 => res(x.set_minute(v), g), 6 => res(x.set_second(v), g), 7 => res(x.set_milli(v), g),
                            8 => res(x.set_micro(v), g), 9 => res(x.set_nano(v), g),
                            10 => g(&x.clear_until_year()), 11 => g(&x.clear_until_month()), 12 => g(&x.clear_until_day()), 13 => g(&x.clear_until_hour()),
                            14 => g(&x.clear_until_minute()), 15 => g(&x.clear_until_second()), 16 => g(&x.clear_until_milli()), 17 => g(&x.clear_until_micro()), 18 => g(&x.clear_until_nano()),
                            19 => res(t.set_hour(v), gt), 20 => res(t.set_minute(v), gt), 21 => res(t.set_second(v), gt), 22 => res(t.set_milli(v), gt),
                            23 => res(t.set_micro(v), gt), 24 => res(t.set_nano(v), gt),
                            25 => gt(&t.clear_until_hour()), 26 => gt(&t.clear_until_minute()), 27 => gt(&t.clear_until_second()), 28 => gt(&t.clear_until_milli()),
                            _ => format!("{} {}", gt(&t.clear_until_micro()), gt(&t.clear_until_nano())),
                        });
                        let o = Offset::from_seconds(f as i32);
                        let r2 = match &o {
                            Ok(off) => format!("{} | {} | {} | {:?} | {} {} {}", p(|| g(&x.set_offset(*off))), p(|| g(&x.as_offset(*off))), p(|| gt(&t.as_offset(*off))), off.resolve_hms(),
                                p(|| { let q = x.set_offset(*off); format!("{} {:?}", gt(&Time::from(&q)), Time::from(&q).get_offset()) }),
                                p(|| { let q = x.set_offset(*off); format!("{} {:?}", gt(&Time::from(q)), Time::from(q).get_offset()) }),
                                p(|| { let q = x.set_offset(*off); format!("{} {:?}", g(&DateTime::from(&q)), DateTime::from(&q).get_offset()) })),
                            Err(er) => format!("Err({})", er),
                        };
                        let r3 = p(|| format!("{} {} {} {} {}", res(DateTime::from_ymdhms(d as i32, (f & 15) as u32, (e & 63) as u32, (cc & 31) as u32, (a & 63) as u32, (b & 63) as u32), g),
                            res(Offset::from_hms((f % 40) as i32, (e & 63) as u32, (a & 63) as u32), |o| format!("{:?}", o)), res(DateTime::from_hms(v, (e & 63) as u32, (a & 63) as u32), g),
                            res(Date::from_ymd(d as i32, (f & 15) as u32, (e & 63) as u32).and_then(|q| q.set_day_of_year(v % 400)), show_d), res(date(a).set_year(d as i32), show_d)));
                        let r3 = format!("{} {} {}", r3, res(date(a).set_day(v), show_d), res(date(a).set_month(v), show_d));
                        // constructors of Time with their error texts (the stated range is part of C15)
                        let r3 = format!("{} {} {} {}", r3, res(Time::from_hms(v, (e & 63) as u32, (a & 63) as u32), show_t), res(Time::from_seconds(v), show_t),
                            res(Time::from_nanos(if e % 3 == 0 { 86_400_000_000_000 + (d as u64 % 3) } else if e % 3 == 1 { (d as u64).wrapping_mul(1_000_003) } else { 4_294_967_296_000_000_000u64.wrapping_mul(1 + (d as u64 % 4)).wrapping_add(d as u64 % 1000) }), show_t));
                        // C09 looks at setters and clears, C10 at what offsets do to readings and conversions, C15 (projected to Ok / Err) at all of it
                        match prop {
                            "C09" => r,
                            "C10" => format!("{} | {}", r2, res(Offset::from_hms((f % 40) as i32, (e & 63) as u32, (a & 63) as u32), |o| format!("{:?} {:?}", o, o.resolve_hms()))),
                            _ => format!("{} || {} || {}", r, r2, r3),
                        }
                    }
                    "C11" => {
                        let x = dt(a, b, cc);
                        let pats = ["G GG GGGG GGGGG", "y yy yyy yyyy yyyyy", "q qq qqq qqqq qqqqq", "M MM MMM MMMM MMMMM", "w ww www", "d dd ddd D DD DDD DDDD",
                            "e ee eee eeee eeeee eeeeee eeeeeee eeeeeeee eeeeeeeee", "a aa aaa aaaa aaaaa aaaaaa b bb bbb bbbb bbbbb", "h hh hhh H HH HHH K KK KKK k kk kkk",
                            "m mm mmm s ss sss n nn nnn nnnn nnnnn nnnnnn", "X XX XXX XXXX XXXXX XXXXXX x xx xxx xxxx xxxxx xxxxxx"];
                        let p = pats[(d.rem_euclid(pats.len() as i64)) as usize];
                        format!("{} :: {} :: {}", x.format(p), Date::from(x).format(pats[(d.rem_euclid(7)) as usize]), Time::from(x).format(pats[7 + (d.rem_euclid(4)) as usize]))
                    }
                    "C17" => {
                        // a: schedule selector, b: start day, c: start second of day, d/e: clock advances (seconds), f: number of calls
                        const MIN: [&str; 6] = ["*", "*/15", "0", "5,20", "59", "30-35"];
                        const HOUR: [&str; 6] = ["*", "0", "12", "23", "*/6", "8-10"];
                        // day-of-month choices stay <= 28 so that every schedule is satisfiable (an unsatisfiable one never returns)
                        const DOM: [&str; 6] = ["*", "1", "15", "28", "10-12", "20"];
                        const MON: [&str; 6] = ["*", "feb", "apr", "1,12", "*/5", "6"];
                        const DOW: [&str; 6] = ["*", "mon", "0", "5,6", "7", "1-3"];
                        let s = a as usize;
                        let expr = format!("{} {} {} {} {}", MIN[s % 6], HOUR[(s / 6) % 6], DOM[(s / 36) % 6], MON[(s / 216) % 6], DOW[(s / 1296) % 6]);
                        let mut sched = match CronSchedule::parse(&expr) { Ok(x) => x, Err(er) => return format!("Err({})", er) };
                        let mut clock = DateTime::from_timestamp((b - 719_162) * 86_400 + cc.rem_euclid(86_400));
                        let mut out = expr;
                        let calls = 1 + f.rem_euclid(4);
                        for i in 0..calls {
                            sched.verif_set_now(clock);
                            match sched.next() { Some(t) => out += &format!(" -> {}", t.format_rfc3339(Precision::Nanos)), None => out += " -> None" };
                            clock = clock.add_seconds((if i % 2 == 0 { d } else { e }).rem_euclid(4_000_000) as u32);
                        }
                        out
                    }
                    "C18" | "C19" => {
                        // a: structure selector, b..e: numbers, f: timestamp selector
                        let ver = [0u8, b'2', b'3'][(a.rem_euclid(3)) as usize];
                        let ntr = ((a / 3).rem_euclid(4)) as usize;
                        let nty = ((a / 12).rem_euclid(4)) as usize; // 0 types: a file no lookup can index
                        let times: Vec<i64> = (0..ntr).map(|i| b + (i as i64) * (1 + cc.rem_euclid(40_000_000))).collect();
                        let idx: Vec<u8> = (0..ntr).map(|i| ((d >> (2 * i)) & 3) as u8 % (nty as u8 + ((a / 36).rem_euclid(5) == 0) as u8).max(1)).collect();
                        let offs: Vec<i32> = (0..nty).map(|i| (((e >> (8 * i)) & 0xff) as i32 - 128) * 900).collect();
                        const FOOT: [&str; 24] = ["", "<+01>-1", "HST10", "CET-1CEST,M3.5.0,M10.5.0/3", "EST5EDT,M3.2.0,M11.1.0", "AEST-10AEDT,M10.1.0,M4.1.0/3",
                            "X-1Y,J59,J300", "X-1Y,J60,J365/25", "X-1Y,59,300", "X-1Y,0/0,364", "IST-2IDT,M3.4.4/26,M10.5.0", "X-1Y,M13.1.0,M3.1.0", "X-1Y,M3.0.0,M10.6.0",
                            "X-1Y,J100,J366", "X-1Y,M3.1.0,M13.1.0", "X-1Y,M2.5.1/-3,M6.5.6/24:30:30",
                            "IST-5:30", "ACST-9:30ACDT,M10.1.0,M4.1.0/3", "<+1245>-12:45<+1345>-13:45,M9.5.0/2:45,M4.1.0/3:45", "NST3:30NDT,M3.2.0,M11.1.0",
                            "<-0330>+3:30:15", "AAA-0:00:01", "WET0WEST-1:15,M3.5.0/1,M10.5.0", "XYZ+1:02:03ABC-0:30,100/1:15,J200/23:59:59"];
                        // two in three footers are generated: every month, week 1..=5, weekday, and J / n days, with and without a time
                        let gen_footer: String = {
                            let (m1, w1, d1) = (1 + cc.rem_euclid(12), 1 + (cc / 12).rem_euclid(5), (cc / 60).rem_euclid(7));
                            let (m2, w2, d2) = (1 + e.rem_euclid(12), 1 + (e / 12).rem_euclid(5), (e / 60).rem_euclid(7));
                            match (e / 420).rem_euclid(4) {
                                0 => format!("AAA-1BBB,M{}.{}.{},M{}.{}.{}", m1, w1, d1, m2, w2, d2),
                                1 => format!("AAA5BBB,M{}.{}.{}/{},M{}.{}.{}/{}:30", m1, w1, d1, d.rem_euclid(49) - 24, m2, w2, d2, (d / 25).rem_euclid(24)),
                                2 => format!("AAA-3BBB,J{},J{}/{}", 1 + cc.rem_euclid(365), 1 + e.rem_euclid(365), d.rem_euclid(25)),
                                _ => format!("AAA8BBB,{},{}", cc.rem_euclid(365), e.rem_euclid(365)),
                            }
                        };
                        let footer: &str = if (a / 180).rem_euclid(3) == 0 { FOOT[((a / 540).rem_euclid(24)) as usize] } else { &gen_footer };
                        let block = |v8: bool| -> Vec<u8> {
                            let mut o = Vec::new();
                            o.extend_from_slice(b"TZif");
                            o.push(ver);
                            o.extend_from_slice(&[0u8; 15]);
                            for c in [0u32, 0, 0, ntr as u32, nty as u32, 4] { o.extend_from_slice(&c.to_be_bytes()); }
                            for t in &times { if v8 { o.extend_from_slice(&t.to_be_bytes()); } else { o.extend_from_slice(&(*t as i32).to_be_bytes()); } }
                            o.extend_from_slice(&idx);
                            for (i, u) in offs.iter().enumerate() { o.extend_from_slice(&u.to_be_bytes()); o.push((i % 2) as u8); o.push(0); }
                            o.extend_from_slice(b"UTC\0");
                            o
                        };
                        let mut bytes = block(false);
                        if ver != 0 {
                            bytes.extend(block(true));
                            bytes.push(b'\n');
                            bytes.extend_from_slice(footer.as_bytes());
                            bytes.push(b'\n');
                        }
                        let cut = (a / 2880).rem_euclid(8);
                        if cut == 7 { let n = bytes.len(); bytes.truncate(n - (1 + (b.rem_euclid(n as i64 - 1)) as usize).min(n - 1)); }
                        let year = 1990 + f.rem_euclid(60);
                        let base = match f.rem_euclid(5) { 0 => times.first().copied().unwrap_or(0), 1 => times.last().copied().unwrap_or(0), _ => (year - 1970) * 31_556_952 };
                        let mut out = String::new();
                        for ts in [base - 1, base, base + 1, base + 86_400 * (f.rem_euclid(366)), base + 3600 * (f.rem_euclid(9000))] {
                            out += &p(|| format!("{:?};", tz_lookup(&bytes, ts)));
                        }
                        out
                    }
                    _ => String::from("unsupported"),
                }
            }
        }
    };
}
battery!(work, astro_work);
battery!(head, astro_head);

/// What a property looks at in a battery's output. C15 (validation): only whether each constructor / setter returned Ok, and the
/// text of the error otherwise - not the value (that is C09 / C01 / C08). C19 (never a crash): only the outcome class of each
/// lookup (Ok / Err / PANIC) - not the offset (that is C18). Every other property compares the full output.
fn project(prop: &str, s: &str) -> String {
    let b: Vec<char> = s.chars().collect();
    if prop != "C15" && prop != "C19" {
        // every other property: the full output, except that the *text* of an error is C15's business - only "an error" is kept
        let mut out = String::new();
        let mut i = 0;
        while i < b.len() {
            let word_start = i == 0 || !b[i - 1].is_alphanumeric();
            if word_start && i + 4 <= b.len() && b[i] == 'E' && b[i + 1] == 'r' && b[i + 2] == 'r' && b[i + 3] == '(' {
                let mut depth = 0;
                let mut j = i + 3;
                while j < b.len() {
                    if b[j] == '(' { depth += 1; }
                    if b[j] == ')' { depth -= 1; if depth == 0 { j += 1; break; } }
                    j += 1;
                }
                out.push_str("Err");
                i = j;
            } else {
                out.push(b[i]);
                i += 1;
            }
        }
        return out;
    }
    let mut out = String::new();
    let mut i = 0;
    let starts = |i: usize, w: &str| -> bool { let w: Vec<char> = w.chars().collect(); i + w.len() <= b.len() && b[i..i + w.len()] == w[..] };
    let skip_group = |mut j: usize| -> usize {
        // j is at '(' : returns the index after the matching ')'
        let mut depth = 0;
        while j < b.len() {
            if b[j] == '(' { depth += 1; }
            if b[j] == ')' { depth -= 1; if depth == 0 { return j + 1; } }
            j += 1;
        }
        b.len()
    };
    while i < b.len() {
        let word_start = i == 0 || !b[i - 1].is_alphanumeric();
        if word_start && starts(i, "Ok(") {
            out.push_str("Ok;");
            i = skip_group(i + 2);
        } else if word_start && starts(i, "Err(") {
            let j = skip_group(i + 3);
            if prop == "C15" { out.extend(b[i..j].iter()); out.push(';'); } else { out.push_str("Err;"); }
            i = j;
        } else if word_start && starts(i, "PANIC") {
            out.push_str("PANIC;");
            i += 5;
        } else {
            i += 1;
        }
    }
    out
}

fn guarded(f: impl FnOnce() -> String + panic::UnwindSafe) -> String {
    match panic::catch_unwind(f) {
        Ok(s) => s,
        Err(_) => "PANIC".to_string(),
    }
}

struct Rng(u64);
impl Rng {
    fn next(&mut self) -> u64 {
        self.0 ^= self.0 << 13;
        self.0 ^= self.0 >> 7;
        self.0 ^= self.0 << 17;
        self.0
    }
    fn pick(&mut self, xs: &[i64]) -> i64 {
        xs[(self.next() % xs.len() as u64) as usize]
    }
}

fn gen(prop: &str, r: &mut Rng) -> Case {
    const DAYS: [i64; 26] = [-2_147_483_648, -2_147_483_647, -2_147_483_000, -146_465, -146_464, -1462, -732, -367, -366, -365, -1, 0, 1, 58, 59, 60, 365, 366,
        693_594, 719_162, 738_000, 738_215, 2_147_000_000, 2_147_483_000, 2_147_483_646, 2_147_483_647];
    const NANOS: [i64; 12] = [0, 1, 999, 1_000, 999_999_999, 1_000_000_000, 43_200_000_000_000, 3_599_999_999_999, 3_600_000_000_000, 86_399_000_000_000, 86_399_999_999_999, 59_999_999_999];
    const OFFS: [i64; 11] = [0, 0, 0, 1, -1, 1800, -1800, 3600, -3661, 86_399, -86_399];
    const COUNTS: [i64; 14] = [0, 1, 2, 23, 24, 59, 60, 999, 1000, 86_400, 6_000_000, 307_445_735, 2_147_483_648, 4_294_967_295];
    let day = |r: &mut Rng| if r.next() % 3 == 0 { (r.next() % 4_000_000) as i64 - 2_000_000 } else { r.pick(&DAYS) };
    let nano = |r: &mut Rng| if r.next() % 3 == 0 { (r.next() % 86_400_000_000_000) as i64 } else { r.pick(&NANOS) };
    let cnt = |r: &mut Rng| if r.next() % 3 == 0 { (r.next() % 5_000_000) as i64 } else { r.pick(&COUNTS) };
    let small = |r: &mut Rng, n: i64| (r.next() % (n as u64)) as i64;
    match prop {
        "C01" | "C02" => {
            let y = if r.next() % 2 == 0 { small(r, 4200) - 2100 } else { r.pick(&[-5_879_612, -5_879_611, -5_879_610, -401, -5, -4, -1, 0, 1, 4, 100, 400, 1900, 2000, 2024, 5_879_610, 5_879_611, 5_879_612]) };
            Case { a: day(r), b: y, c: small(r, 14), d: small(r, 33), e: small(r, 368), f: small(r, 8) }
        }
        "C03" => Case { a: if r.next() % 2 == 0 { (r.next() as i64) >> (r.next() % 40) } else { (day(r) - 719_162) * 86_400 + small(r, 86_400) - 1 }, b: day(r).clamp(-2_000_000_000, 2_000_000_000), c: nano(r), d: r.pick(&OFFS), e: r.next() as i64, f: r.next() as i64 },
        "C04" | "C05" => Case { a: day(r).clamp(-2_147_483_000, 2_147_483_000), b: nano(r), c: r.pick(&OFFS), d: cnt(r), e: r.next() as i64 & 0xffff, f: match r.next() % 4 { 0 => cnt(r) * 1000, 1 => r.pick(&[-1, -86_400, i64::MAX, i64::MIN, 1 << 32, (1 << 32) - 1, 185_542_587_187_199, 185_542_587_187_200]), _ => (r.next() >> (r.next() % 40)) as i64 & 0x7fff_ffff_ffff_ffff } },
        "C06" | "C07" => { let a = day(r).clamp(-2_000_000_000, 2_000_000_000); let near = r.next() % 2 == 0; Case { a, b: nano(r), c: r.pick(&OFFS), d: if near { a + small(r, 800) - 400 } else { day(r).clamp(-2_000_000_000, 2_000_000_000) }, e: nano(r), f: r.next() as i64 & 0xff } }
        "C08" => Case { a: nano(r), b: r.pick(&OFFS), c: cnt(r), d: if r.next() % 4 == 0 { r.pick(&[86_400_000_000_000, 86_400_000_000_001, -1, i64::MAX, 4_294_967_296_000_000_000, 4_294_967_295_999_999_999, 1 << 63]) } else { nano(r) }, e: r.next() as i64 & 0xffff, f: if r.next() % 2 == 0 { cnt(r) } else { (r.next() >> (r.next() % 30)) as i64 & 0x7fff_ffff_ffff_ffff } },
        "C09" | "C10" | "C15" => Case { a: day(r).clamp(-2_147_000_000, 2_147_000_000), b: nano(r), c: r.pick(&OFFS), d: if r.next() % 2 == 0 { small(r, 70) } else { r.pick(&[0, 1, 12, 13, 23, 24, 28, 29, 30, 31, 32, 59, 60, 255, 256, 365, 366, 367, 999, 1000, 999_999, 1_000_000, 999_999_999, 1_000_000_000, 2024, 2023, -5, -4, 5_879_611, -5_879_611, 4_294_967_295, 2_147_483_648, -2_147_483_648]) }, e: r.next() as i64 & 0xffff, f: if r.next() % 2 == 0 { r.pick(&OFFS) } else { r.pick(&[86_400, -86_400, 90_000, -2_147_483_648, 2_147_483_647, 23, -23, 24, 25]) } },
        "C11" => Case { a: day(r).clamp(-2_000_000_000, 2_000_000_000), b: nano(r), c: r.pick(&OFFS), d: r.next() as i64 & 0xffff, e: 0, f: 0 },
        "C17" => Case { a: small(r, 7776), b: if r.next() % 2 == 0 { 738_000 + small(r, 3000) } else { r.pick(&[738_214, 738_215, 738_273, 738_274, 738_303, 738_304, 738_579, 738_580, 739_309, 739_310, 738_156]) }, c: if r.next() % 2 == 0 { small(r, 86_400) } else { r.pick(&[0, 1, 59, 60, 3599, 3600, 86_340, 86_399, 43_200]) }, d: small(r, 4_000_000), e: r.pick(&[0, 1, 59, 60, 61, 3600, 86_400, 2_678_400]), f: small(r, 4) },
        "C18" | "C19" => Case { a: small(r, 46_080), b: if r.next() % 2 == 0 { small(r, 2_000_000_000) - 300_000_000 } else { r.pick(&[0, 1_000_000, 1_616_893_200, 1_635_037_200, 1_709_082_000]) }, c: small(r, 40_000_000), d: small(r, 256), e: r.next() as i64 & 0xff_ffff, f: small(r, 1_000_000) },
        _ => Case { a: 0, b: 0, c: 0, d: 0, e: 0, f: 0 },
    }
}

fn main() {
    let args: Vec<String> = std::env::args().collect();
    panic::set_hook(Box::new(|_| {}));
    if args.len() >= 9 && args[1] == "case" {
        let v: Vec<i64> = args[3..9].iter().map(|x| x.parse().unwrap()).collect();
        let c = Case { a: v[0], b: v[1], c: v[2], d: v[3], e: v[4], f: v[5] };
        let p = args[2].clone();
        let p2 = p.clone();
        let p3 = p.clone();
        println!("head: {}", project(&p3, &guarded(move || head::run(&p, &c))));
        println!("work: {}", project(&p3, &guarded(move || work::run(&p2, &c))));
        return;
    }
    if args.len() < 4 {
        println!("usage: cesearch <property> <seed> <count>");
        return;
    }
    let prop = args[1].clone();
    let mut rng = Rng(0x9E37_79B9_7F4A_7C15 ^ (args[2].parse::<u64>().unwrap_or(0).wrapping_mul(0x2545_F491_4F6C_DD1D) | 1));
    let n: u64 = args[3].parse().unwrap_or(100_000);
    for _ in 0..n {
        let c = gen(&prop, &mut rng);
        let (p1, p2) = (prop.clone(), prop.clone());
        let h = project(&prop, &guarded(move || head::run(&p1, &c)));
        let w = project(&prop, &guarded(move || work::run(&p2, &c)));
        if h != w {
            println!("{{\"property\":\"{}\",\"case\":[{},{},{},{},{},{}],\"head\":{:?},\"work\":{:?}}}", prop, c.a, c.b, c.c, c.d, c.e, c.f, h, w);
            return;
        }
    }
    println!("NONE");
}
